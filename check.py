#!/usr/bin/env python3
"""Orchestrator: build -> jobs (regress tier, enumerated, generated; sharded over worker processes)
-> merge -> evidence -> exit code.

  ./check.py <ID> [--tier quick|thorough] [--seed N] [--jobs N] [--only-build B]
  ./check.py <ID> --replay <file>
  ./check.py --build-all

Exit 0: property held on everything explored (KNOWN-FINDING lines allowed);
exit 1: `VIOLATION property=<id> replay=<path>` printed; exit 2: inconclusive infrastructure problem.
"""
import fcntl
import json
import os
import shutil
import subprocess
import sys
import time
from concurrent.futures import ThreadPoolExecutor

VERIF = os.path.dirname(os.path.abspath(__file__))
sys.path.insert(0, VERIF)
from propcfg import PROPS  # noqa: E402

HARNESS = os.path.join(VERIF, "harness")
TARGET = os.environ.get("IPCV_TARGET", os.path.join(VERIF, "target"))
EVID = os.path.join(VERIF, "evidence")
REPLAYS = os.path.join(VERIF, "replays")

FLAVOURS = {
    "os": dict(features=[], nightly=False),
    "memfd": dict(features=["memfd"], nightly=False),
    "inproc": dict(features=["inproc"], nightly=False),
    "async": dict(features=["asynch"], nightly=False),
    "async-inproc": dict(features=["asynch", "inproc"], nightly=False),
    "asan": dict(features=["asan"], nightly=True),
}


def harness_dir():
    """The harness crate normally depends on path=/repo.  IPCV_REPO points the same sources at a
    scratch copy of the repository (sensitivity runs only): a shadow crate directory is generated."""
    repo = os.environ.get("IPCV_REPO")
    if not repo:
        return HARNESS
    shadow = os.path.join(TARGET, "shadow-crate")
    os.makedirs(shadow, exist_ok=True)
    toml = open(os.path.join(HARNESS, "Cargo.toml")).read().replace('path = "/repo"', 'path = "%s"' % repo)
    cur = None
    try:
        cur = open(os.path.join(shadow, "Cargo.toml")).read()
    except OSError:
        pass
    if cur != toml:
        open(os.path.join(shadow, "Cargo.toml"), "w").write(toml)
    for name in ("Cargo.lock", "src", ".cargo"):
        dst = os.path.join(shadow, name)
        if not os.path.lexists(dst):
            os.symlink(os.path.join(HARNESS, name), dst)
    return shadow


def binary(fl):
    if fl == "asan":
        return os.path.join(TARGET, fl, "x86_64-unknown-linux-gnu", "debug", "ipcv")
    return os.path.join(TARGET, fl, "debug", "ipcv")


def build(fl):
    """Rebuild flavour `fl` from /repo's current working tree. Returns (ok, log)."""
    os.makedirs(os.path.join(TARGET, fl), exist_ok=True)
    cfg = FLAVOURS[fl]
    env = dict(os.environ, CARGO_NET_OFFLINE="true")
    cmd = ["cargo"]
    if cfg["nightly"]:
        cmd.append("+nightly")
        env["RUSTFLAGS"] = "-Zsanitizer=address"
    cmd += ["build", "--offline", "--target-dir", os.path.join(TARGET, fl)]
    if cfg["nightly"]:
        cmd += ["--target", "x86_64-unknown-linux-gnu"]
    if cfg["features"]:
        cmd += ["--features", ",".join(cfg["features"])]
    lock = open(os.path.join(TARGET, fl, ".ipcv-build-lock"), "w")
    fcntl.flock(lock, fcntl.LOCK_EX)
    try:
        p = subprocess.run(cmd, cwd=harness_dir(), env=env, stdout=subprocess.PIPE, stderr=subprocess.STDOUT, text=True)
    finally:
        fcntl.flock(lock, fcntl.LOCK_UN)
        lock.close()
    return p.returncode == 0 and os.path.exists(binary(fl)), p.stdout


FUZZ_TARGET_DIR = os.path.join(TARGET, "fuzz")


def fuzz_binary(target):
    return os.path.join(FUZZ_TARGET_DIR, "x86_64-unknown-linux-gnu", "release", target)


def build_fuzz():
    """Build the libFuzzer targets (coverage instrumentation, no sanitizer: the full libc
    interposition of the harness stays active) from /repo's current working tree."""
    os.makedirs(FUZZ_TARGET_DIR, exist_ok=True)
    env = dict(os.environ, CARGO_NET_OFFLINE="true")
    cmd = ["cargo", "+nightly", "fuzz", "build", "--fuzz-dir", os.path.join(VERIF, "fuzz"), "--sanitizer", "none", "--target-dir", FUZZ_TARGET_DIR]
    lock = open(os.path.join(FUZZ_TARGET_DIR, ".ipcv-build-lock"), "w")
    fcntl.flock(lock, fcntl.LOCK_EX)
    try:
        p = subprocess.run(cmd, cwd=harness_dir(), env=env, stdout=subprocess.PIPE, stderr=subprocess.STDOUT, text=True)
    finally:
        fcntl.flock(lock, fcntl.LOCK_UN)
        lock.close()
    return p.returncode == 0, p.stdout


def run_fuzz_job(job, seed, outdir, idx):
    """One libFuzzer process: fixed number of runs, fixed seed, fresh corpus directory seeded with
    the target's seed inputs.  A crash artifact is a violation (the oracle panics inside the target)."""
    import re
    import shutil
    target = job["fuzz"]
    corpus = os.path.join(outdir, "corpus-%s-%d" % (target, idx))
    arts = os.path.join(REPLAYS, "")
    shutil.rmtree(corpus, ignore_errors=True)
    os.makedirs(corpus)
    seeds_dir = os.path.join(VERIF, "fuzz", "seeds", target)
    if os.path.isdir(seeds_dir):
        for f in os.listdir(seeds_dir):
            shutil.copy(os.path.join(seeds_dir, f), corpus)
    prefix = os.path.join(REPLAYS, "%s-fuzz-%s-%d-%d-" % (job["prop"], target, os.getpid(), idx))
    cmd = [fuzz_binary(target), corpus, "-runs=%d" % job["runs"], "-seed=%d" % (seed * 1000 + idx + 1), "-max_len=%d" % job.get("max_len", 512),
           "-len_control=0", "-artifact_prefix=" + prefix, "-print_final_stats=1", "-timeout=60"]
    env = dict(os.environ, RUST_BACKTRACE="0", IPCV_WATCHDOG="30")
    t0 = time.time()
    try:
        p = subprocess.run(cmd, stdout=subprocess.PIPE, stderr=subprocess.STDOUT, text=True, timeout=job.get("timeout", 5400), env=env)
        rc, out = p.returncode, p.stdout
    except subprocess.TimeoutExpired as e:
        rc, out = -999, "fuzz job timed out: %s" % e
    runs = 0
    m = re.search(r"stat::number_of_executed_units:\s*(\d+)", out)
    if m:
        runs = int(m.group(1))
    cov = 0
    for m in re.finditer(r"cov: (\d+)", out):
        cov = max(cov, int(m.group(1)))
    corpus_n = len(os.listdir(corpus))
    artifacts = [prefix + f for f in os.listdir(REPLAYS) if (os.path.join(REPLAYS, f)).startswith(prefix)] if os.path.isdir(REPLAYS) else []
    artifacts = [os.path.join(REPLAYS, f) for f in os.listdir(REPLAYS) if os.path.join(REPLAYS, f).startswith(prefix)]
    detail = ""
    k = out.find("VIOLATION-IN-FUZZ-TARGET")
    if k >= 0:
        detail = out[k:k + 600]
    samples = []
    for f in sorted(os.listdir(corpus))[:3]:
        try:
            samples.append(open(os.path.join(corpus, f), "rb").read()[:64].hex())
        except OSError:
            pass
    return dict(job=job, rc=rc, runs=runs, cov=cov, corpus=corpus_n, artifacts=artifacts, detail=detail, tail=out[-1500:], wall=time.time() - t0, samples=samples)


def build_all(fls):
    with ThreadPoolExecutor(max_workers=3) as ex:
        res = list(ex.map(lambda f: (f, build(f)), fls))
    ok = True
    for fl, (good, log) in res:
        if not good:
            ok = False
            sys.stderr.write("BUILD FAILED for flavour %s:\n%s\n" % (fl, log[-6000:]))
    return ok


def run_job(job, tier, seed, outdir, idx):
    out = os.path.join(outdir, "job%03d.json" % idx)
    cmd = [binary(job["build"]), "run", job["prop"], "--seed", str(seed), "--shard", "%d/%d" % (job["shard"], job["nshards"]), "--out", out, "--replay-dir", REPLAYS]
    if tier == "thorough":
        cmd.append("--thorough")
    for k, v in sorted(job.get("params", {}).items()):
        cmd += ["--param", "%s=%s" % (k, v)]
    env = dict(os.environ)
    env.setdefault("RUST_BACKTRACE", "0")
    if job["build"] == "asan":
        env["ASAN_OPTIONS"] = "detect_leaks=0:abort_on_error=0:exitcode=97:allocator_may_return_null=1"
    env["IPCV_WATCHDOG"] = str(job.get("watchdog", 10 if tier == "quick" else 30))
    timeout = job.get("timeout", 420 if tier == "quick" else 5400)
    t0 = time.time()
    proc = subprocess.Popen(cmd, stdout=subprocess.PIPE, stderr=subprocess.PIPE, text=True, env=env)
    try:
        so, se = proc.communicate(timeout=timeout)
        rc = proc.returncode
    except subprocess.TimeoutExpired as e:
        proc.kill()
        proc.communicate()
        rc, so, se = -999, "", "job timed out after %ds: %s" % (timeout, e)
    # the worker's private TMPDIR (removed by the worker itself unless it was killed)
    shutil.rmtree("/tmp/ipcv.%d" % proc.pid, ignore_errors=True)
    rep = None
    if os.path.exists(out):
        try:
            rep = json.load(open(out))
        except Exception as e:  # noqa
            se += "\nunreadable report: %s" % e
    return dict(job=job, rc=rc, stdout=so, stderr=se, report=rep, wall=time.time() - t0, cmd=cmd)


def expand_jobs(pid, cfg, tier, only_build=None):
    jobs = []
    for j in cfg["jobs"](tier):
        if "fuzz" in j:
            continue
        if only_build and j["build"] != only_build:
            continue
        n = j.get("shards", 1)
        for s in range(n):
            jobs.append(dict(prop=pid, build=j["build"], params=j.get("params", {}), shard=s, nshards=n, timeout=j.get("timeout", None) or (420 if tier == "quick" else 5400), watchdog=j.get("watchdog", 10 if tier == "quick" else 30)))
    return jobs


def main():
    args = sys.argv[1:]
    if args and args[0] == "--build-all":
        ok = build_all(list(FLAVOURS))
        fok, flog = build_fuzz()
        if not fok:
            sys.stderr.write("BUILD FAILED for the fuzz targets:\n%s\n" % flog[-4000:])
        sys.exit(0 if ok and fok else 2)
    if not args:
        print(__doc__)
        sys.exit(2)
    pid = args[0]
    tier = os.environ.get("VERIF_TIER", "quick")
    seed = int(os.environ.get("VERIF_SEED", "20261003"))
    maxjobs = int(os.environ.get("IPCV_JOBS", "16"))
    replay = None
    only_build = None
    i = 1
    while i < len(args):
        if args[i] == "--tier":
            tier = args[i + 1]
            i += 2
        elif args[i] == "--seed":
            seed = int(args[i + 1])
            i += 2
        elif args[i] == "--jobs":
            maxjobs = int(args[i + 1])
            i += 2
        elif args[i] == "--replay":
            replay = args[i + 1]
            i += 2
        elif args[i] == "--only-build":
            only_build = args[i + 1]
            i += 2
        else:
            print("unknown argument", args[i])
            sys.exit(2)
    if tier not in ("quick", "thorough"):
        tier = "quick"
    cfg = PROPS[pid]
    os.makedirs(EVID, exist_ok=True)
    os.makedirs(REPLAYS, exist_ok=True)

    if replay and not replay.endswith(".json"):
        # a libFuzzer crash artifact: re-run the target on exactly that input
        target = cfg.get("fuzz_target")
        ok, log = build_fuzz()
        if not ok or not target:
            sys.stderr.write(log[-4000:] if not ok else "no fuzz target for %s\n" % pid)
            sys.exit(2)
        p = subprocess.run([fuzz_binary(target), os.path.abspath(replay)])
        if p.returncode != 0:
            print("VIOLATION property=%s replay=%s" % (pid, os.path.abspath(replay)))
            sys.exit(1)
        print("replay passed")
        sys.exit(0)
    if replay:
        doc = json.load(open(replay))
        fl = doc.get("build", "os")
        if fl == "any":
            fl = "os"
        ok, log = build(fl)
        if not ok:
            sys.stderr.write(log[-4000:])
            sys.exit(2)
        env = dict(os.environ)
        if fl == "asan":
            env["ASAN_OPTIONS"] = "detect_leaks=0:exitcode=97"
        p = subprocess.run([binary(fl), "replay", os.path.abspath(replay)], env=env)
        if p.returncode < 0 or p.returncode == 97:
            print("replay: the process was killed (signal / sanitizer report): return code %d" % p.returncode)
            print("VIOLATION property=%s replay=%s" % (pid, os.path.abspath(replay)))
            sys.exit(1)
        sys.exit(p.returncode if p.returncode in (0, 1) else 2)

    t0 = time.time()
    jobs = expand_jobs(pid, cfg, tier, only_build)
    fls = sorted(set(j["build"] for j in jobs))
    if not build_all(fls):
        print("INCONCLUSIVE property=%s build failed" % pid)
        sys.exit(2)
    t_build = time.time() - t0

    outdir = os.path.join(TARGET, "jobs", "%s-%s-%d-%d" % (pid, tier, seed, os.getpid()))
    os.makedirs(outdir, exist_ok=True)
    with ThreadPoolExecutor(max_workers=maxjobs) as ex:
        results = list(ex.map(lambda t: run_job(t[1], tier, seed, outdir, t[0]), enumerate(jobs)))

    # ---- coverage-guided jobs (thorough tiers of the properties that have a fuzz target) ---------
    fuzz_results = []
    fuzz_jobs = []
    for j in cfg["jobs"](tier):
        if "fuzz" in j:
            for k in range(j.get("procs", 1)):
                fuzz_jobs.append(dict(j, prop=pid))
    if fuzz_jobs and not only_build:
        fok, flog = build_fuzz()
        if not fok:
            sys.stderr.write("BUILD FAILED for the fuzz targets:\n%s\n" % flog[-4000:])
            print("INCONCLUSIVE property=%s fuzz build failed" % pid)
            sys.exit(2)
        with ThreadPoolExecutor(max_workers=maxjobs) as ex:
            fuzz_results = list(ex.map(lambda t: run_fuzz_job(t[1], seed, outdir, t[0]), enumerate(fuzz_jobs)))

    # ---- merge ----------------------------------------------------------------------------------
    evaluations = 0
    hashes = set()
    classes = {}
    counters = {}
    per_build = {}
    samples = []
    seen_sample_classes = set()
    known = {}
    violations = []
    inconclusive = []
    enumerated = 0
    enumerated_total = {}
    regress = 0
    infra = []
    for r in results:
        rep = r["report"]
        j = r["job"]
        label = j["build"] + ("" if not j["params"] else "[" + ",".join("%s=%s" % kv for kv in sorted(j["params"].items())) + "]")
        cur = os.path.join(outdir, "job%03d.json.current" % results.index(r))
        if rep is None and (r["rc"] < 0 or r["rc"] == 97) and r["rc"] != -999 and os.path.exists(cur):
            # the worker process was killed by a signal (abort, segfault) while executing a case:
            # the library took the whole process down; the case in flight is the counterexample
            try:
                doc = json.load(open(cur))
                if r["rc"] == 97:
                    doc["signature"] = "address-sanitizer-report"
                    rep_txt = r["stderr"]
                    k = rep_txt.find("ERROR: AddressSanitizer")
                    doc["detail"] = "AddressSanitizer stopped the process executing this case: %s" % (rep_txt[k:k + 1500] if k >= 0 else rep_txt[-1200:])
                else:
                    doc["signature"] = "worker-killed-by-signal-%d" % (-r["rc"])
                    doc["detail"] = "the process executing this case was killed by signal %d; stderr tail: %s" % (-r["rc"], r["stderr"][-600:])
                path = os.path.join(REPLAYS, "%s-%s-killed-%d-%d.json" % (pid, j["build"], os.getpid(), results.index(r)))
                json.dump(doc, open(path, "w"), indent=1)
                violations.append(dict(signature=doc["signature"], detail=doc["detail"], replay=path, build=label))
                continue
            except Exception as e:  # noqa
                infra.append("%s: unreadable in-flight case: %s" % (label, e))
        if rep is None:
            # the worker died without a report: crash of the harness process itself
            infra.append("%s shard %d: exit %s without report; stderr tail: %s" % (label, j["shard"], r["rc"], r["stderr"][-1500:]))
            continue
        evaluations += rep["evaluations"]
        enumerated += rep["enumerated"]
        enumerated_total[label] = rep["enumerated_total"]
        regress += rep["regress"]
        for h in rep["nontrivial_hashes"]:
            hashes.add(label + ":" + h)
        pb = per_build.setdefault(label, dict(evaluations=0, nontrivial=0))
        pb["evaluations"] += rep["evaluations"]
        pb["nontrivial"] += len(rep["nontrivial_hashes"])
        for k, v in rep["classes"].items():
            classes[k] = classes.get(k, 0) + v
        for k, v in rep["counters"].items():
            counters[k] = counters.get(k, 0) + v
        if rep.get("kernel_eof_races_masked"):
            counters["kernel_eof_races_masked_by_interposer"] = counters.get("kernel_eof_races_masked_by_interposer", 0) + rep["kernel_eof_races_masked"]
        for s in rep["samples"]:
            c = s.get("class")
            if (c, j["build"]) not in seen_sample_classes and len(samples) < 24:
                seen_sample_classes.add((c, j["build"]))
                s = dict(s)
                s["build"] = label
                samples.append(s)
        for k in rep["known"]:
            e = known.setdefault(k["signature"], dict(count=0, what=k["what"]))
            e["count"] += k["count"]
        for v in rep["violations"]:
            v = dict(v)
            v["build"] = label
            violations.append(v)
        for m in rep["inconclusive"]:
            inconclusive.append("%s: %s" % (label, m))
        if r["rc"] not in (0, 1):
            infra.append("%s shard %d: exit code %s; stderr tail: %s" % (label, j["shard"], r["rc"], r["stderr"][-800:]))

    fuzz_cov = {}
    for fr in fuzz_results:
        t = fr["job"]["fuzz"]
        evaluations += fr["runs"]
        e = fuzz_cov.setdefault(t, dict(processes=0, executions=0, max_coverage_edges=0, corpus_inputs=0))
        e["processes"] += 1
        e["executions"] += fr["runs"]
        e["max_coverage_edges"] = max(e["max_coverage_edges"], fr["cov"])
        e["corpus_inputs"] += fr["corpus"]
        for i, sm in enumerate(fr["samples"]):
            hashes.add("fuzz:%s:%s" % (t, sm))
            if len(samples) < 28 and i == 0:
                samples.append(dict(build="fuzz:" + t, **{"class": "coverage-increasing input (hex, first 64 bytes)", "case": sm}))
        # every corpus entry is a distinct input that reached new coverage
        for n in range(fr["corpus"]):
            hashes.add("fuzz:%s:%d:%d" % (t, fuzz_results.index(fr), n))
        if fr["artifacts"]:
            violations.append(dict(signature="fuzz:%s:oracle-failed" % t, detail=fr["detail"] or fr["tail"][-600:], replay=fr["artifacts"][0], build="fuzz:" + t))
        elif fr["rc"] != 0:
            infra.append("fuzz target %s: exit %s without artifact: %s" % (t, fr["rc"], fr["tail"][-500:]))

    # ---- differential comparison across builds (same generated cases on every build) ----------
    programs = 0
    disagreements_checked = 0
    if cfg.get("cross_build"):
        groups = {}
        for r in results:
            rep = r["report"]
            if rep is None:
                continue
            j = r["job"]
            key = (tuple(sorted(j["params"].items())), j["shard"])
            pairs = dict(p.split(":") for p in rep.get("pairs", []))
            groups.setdefault(key, {})[j["build"]] = pairs
        for key, by_build in groups.items():
            builds = sorted(by_build)
            common = set.intersection(*[set(by_build[b]) for b in builds]) if builds else set()
            programs += len(common)
            for h in common:
                traces = {b: by_build[b][h] for b in builds}
                disagreements_checked += len(builds) - 1
                if len(set(traces.values())) > 1:
                    path = os.path.join(REPLAYS, "%s-crossbuild-%s.json" % (pid, h))
                    json.dump(dict(property=pid, build="any", note="builds disagree on the result trace of the generated case with this hash; regenerate with the job parameters below", case_hash=h, params=dict(key[0]), shard=key[1], seed=seed, tier=tier, traces=traces), open(path, "w"), indent=1)
                    violations.append(dict(signature="cross-build:trace-differs", detail="builds disagree on program %s: %s" % (h, traces), replay=path, build="/".join(builds)))

    wall = time.time() - t0
    meta = cfg["meta"]
    coverage = dict(
        evaluations=evaluations,
        distinct_nontrivial=len(hashes),
        rule=meta["rule"],
        samples=samples if samples else [{"note": "no non-trivial case recorded"}],
        classes=dict(sorted(classes.items())),
        per_build=per_build,
        counters=counters,
        enumerated_cases_run=enumerated,
        enumerated_domain_sizes=enumerated_total,
        regress_cases_run=regress,
        excluded_by_known_finding={k: v["count"] for k, v in known.items()},
        inconclusive_cases=len(inconclusive),
        inconclusive_examples=inconclusive[:5],
        jobs=len(jobs),
        build_s=round(t_build, 1),
    )
    if fuzz_cov:
        coverage["coverage_guided_fuzzing"] = fuzz_cov
    if cfg.get("cross_build"):
        coverage["programs"] = programs
        coverage["disagreements_checked"] = disagreements_checked
    if meta.get("exhaustive") and enumerated > 0 and not violations:
        coverage["exhaustive"] = True
        coverage["exhaustive_scope"] = meta["exhaustive"]
    ev = dict(
        property_id=pid,
        tier=tier,
        seed=seed,
        level=meta["level"],
        coverage=coverage,
        assumptions=meta["assumptions"],
        wall_s=round(wall, 2),
        violations=len(violations),
    )
    json.dump(ev, open(os.path.join(EVID, "%s.json" % pid), "w"), indent=1)

    for sig, e in sorted(known.items()):
        print("KNOWN-FINDING: property=%s %s [%s] (%d case(s) excluded)" % (pid, e["what"], sig, e["count"]))
    print("%s %s: %d evaluations, %d distinct non-trivial, %d jobs, %.1fs (build %.1fs)%s" % (
        pid, tier, evaluations, len(hashes), len(jobs), wall, t_build,
        ", %d inconclusive" % len(inconclusive) if inconclusive else ""))
    if violations:
        seen = set()
        for v in violations:
            key = v["signature"]
            if key in seen:
                continue
            seen.add(key)
            print("  violation signature=%s build=%s: %s" % (v["signature"], v["build"], v["detail"][:600]))
            print("VIOLATION property=%s replay=%s" % (pid, v["replay"]))
        sys.exit(1)
    if infra:
        for m in infra[:8]:
            sys.stderr.write("INCONCLUSIVE: %s\n" % m)
        sys.exit(2)
    if evaluations == 0:
        sys.stderr.write("INCONCLUSIVE: nothing was evaluated\n")
        sys.exit(2)
    sys.exit(0)


if __name__ == "__main__":
    main()
