#![no_main]
// C16: coverage-guided search over (expected type, receive path, attachments, payload bytes).
libfuzzer_sys::fuzz_target!(|data: &[u8]| ipcv::fuzz::decode(data));
