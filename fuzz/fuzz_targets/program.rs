#![no_main]
// C19 (and the world-model part of C03/C04/C09): bytes -> program of the lock-step interpreter.
libfuzzer_sys::fuzz_target!(|data: &[u8]| ipcv::fuzz::program(data));
