//! proptest TestRunner wrapper: counters, classification, samples, shrinking, replay I/O,
//! known-finding handling.  One worker process = one (property, build, params, shard) job; the
//! orchestrator (check.py) merges the job reports into the evidence file.

use proptest::strategy::{BoxedStrategy, Strategy};
use proptest::test_runner::{Config, RngSeed, TestCaseError, TestError, TestRunner};
use serde::de::DeserializeOwned;
use serde::Serialize;
use serde_json::{json, Value};
use std::cell::RefCell;
use std::collections::{BTreeMap, BTreeSet};
use std::fmt::Debug;
use std::time::Instant;

pub const BUILD: &str = if cfg!(feature = "asan") {
    "asan"
} else if cfg!(all(feature = "inproc", feature = "asynch")) {
    "async-inproc"
} else if cfg!(feature = "inproc") {
    "inproc"
} else if cfg!(feature = "memfd") {
    "memfd"
} else if cfg!(feature = "asynch") {
    "async"
} else {
    "os"
};

#[derive(Clone, Debug)]
pub struct Ctx {
    pub prop: String,
    pub thorough: bool,
    pub seed: u64,
    pub shard: u32,
    pub nshards: u32,
    pub params: BTreeMap<String, String>,
    pub out: Option<String>,
    pub replay_dir: String,
    pub strict: bool,
}

impl Ctx {
    pub fn param_u64(&self, k: &str, default: u64) -> u64 {
        self.params.get(k).and_then(|v| v.parse().ok()).unwrap_or(default)
    }
    pub fn param(&self, k: &str) -> Option<&str> {
        self.params.get(k).map(|s| s.as_str())
    }
    /// `quick` or `thorough` count
    pub fn pick(&self, quick: u32, thorough: u32) -> u32 {
        if self.thorough {
            thorough
        } else {
            quick
        }
    }
    /// share of `total` cases that this shard has to run
    pub fn share(&self, total: u32) -> u32 {
        let base = total / self.nshards;
        let extra = if self.shard < total % self.nshards { 1 } else { 0 };
        (base + extra).max(1)
    }
}

/// What a passing case reports about itself.
#[derive(Clone, Debug, Default)]
pub struct Outcome {
    pub nontrivial: bool,
    pub class: String,
    /// extra counters merged (summed) into the evidence
    pub counters: Vec<(&'static str, u64)>,
    /// hash of the normalised result trace (differential comparison across builds)
    pub trace_hash: Option<u64>,
}

impl Outcome {
    pub fn new(nontrivial: bool, class: impl Into<String>) -> Outcome {
        Outcome { nontrivial, class: class.into(), counters: vec![], trace_hash: None }
    }
    pub fn trace(mut self, h: u64) -> Outcome {
        self.trace_hash = Some(h);
        self
    }
    pub fn with(mut self, k: &'static str, v: u64) -> Outcome {
        self.counters.push((k, v));
        self
    }
}

#[derive(Clone, Debug)]
pub struct Failure {
    /// names the failing call site / input class; used to match known findings
    pub signature: String,
    pub detail: String,
    /// the check could not decide (watchdog without established cause, resource problem)
    pub inconclusive: bool,
    /// process state is damaged (stuck thread etc.): do not shrink in this process
    pub poisoned: bool,
}

impl Failure {
    pub fn new(signature: impl Into<String>, detail: impl Into<String>) -> Failure {
        Failure { signature: signature.into(), detail: detail.into(), inconclusive: false, poisoned: false }
    }
    pub fn inconclusive(detail: impl Into<String>) -> Failure {
        Failure { signature: "inconclusive".into(), detail: detail.into(), inconclusive: true, poisoned: false }
    }
    pub fn poisoned(mut self) -> Failure {
        self.poisoned = true;
        self
    }
}

#[macro_export]
macro_rules! fail {
    ($sig:expr, $($arg:tt)*) => {
        return Err($crate::engine::Failure::new($sig, format!($($arg)*)))
    };
}
#[macro_export]
macro_rules! ensure {
    ($cond:expr, $sig:expr, $($arg:tt)*) => {
        if !($cond) {
            return Err($crate::engine::Failure::new($sig, format!($($arg)*)));
        }
    };
}

pub trait Prop {
    type Case: Debug + Clone + Serialize + DeserializeOwned + 'static;
    const ID: &'static str;
    /// whether failures may depend on the OS schedule (replay repeats the case)
    const SCHEDULE_DEPENDENT: bool = false;
    /// generate the same cases on every build flavour (differential properties)
    const SAME_CASES_ACROSS_BUILDS: bool = false;
    fn strategy(ctx: &Ctx) -> BoxedStrategy<Self::Case>;
    /// total generated cases for this job (all shards together)
    fn cases(ctx: &Ctx) -> u32;
    /// explicitly enumerated cases (all shards together; the engine picks this shard's share)
    fn enumerated(_ctx: &Ctx) -> Vec<Self::Case> {
        vec![]
    }
    /// once per process, before any case
    fn setup(_ctx: &Ctx) {}
    fn exec(ctx: &Ctx, case: &Self::Case) -> Result<Outcome, Failure>;
}

fn fnv64(bytes: &[u8]) -> u64 {
    let mut h = 0xcbf29ce484222325u64;
    for b in bytes {
        h ^= *b as u64;
        h = h.wrapping_mul(0x100000001b3);
    }
    h
}

pub fn mix(a: u64, b: u64) -> u64 {
    let mut x = a ^ b.wrapping_mul(0x9E3779B97F4A7C15);
    x ^= x >> 30;
    x = x.wrapping_mul(0xBF58476D1CE4E5B9);
    x ^= x >> 27;
    x = x.wrapping_mul(0x94D049BB133111EB);
    x ^ (x >> 31)
}

#[derive(Default)]
struct Acc {
    evaluations: u64,
    enumerated: u64,
    regress: u64,
    hashes: BTreeSet<u64>,
    classes: BTreeMap<String, u64>,
    class_samples: BTreeMap<String, Value>,
    extra_samples: Vec<Value>,
    counters: BTreeMap<String, u64>,
    known: BTreeMap<String, (u64, String)>,
    violations: Vec<Value>,
    inconclusive: Vec<String>,
    failed: bool,
    poisoned: bool,
    pairs: Vec<(u64, u64)>,
}

fn truncate_json(v: Value) -> Value {
    let s = v.to_string();
    if s.len() <= 3000 {
        v
    } else {
        let mut cut = 3000;
        while !s.is_char_boundary(cut) {
            cut -= 1;
        }
        json!({ "truncated_json": format!("{}…", &s[..cut]), "full_len": s.len() })
    }
}

struct Known {
    entries: Vec<(String, String)>, // (signature, what) with status == known for this property
}

fn load_known(prop: &str) -> Known {
    let path = std::env::var("IPCV_KNOWN").unwrap_or_else(|_| "/verif/known_findings.json".into());
    let mut entries = vec![];
    if let Ok(s) = std::fs::read_to_string(&path) {
        if let Ok(v) = serde_json::from_str::<Value>(&s) {
            if let Some(a) = v.get("findings").and_then(|a| a.as_array()) {
                for e in a {
                    if e.get("property").and_then(|p| p.as_str()) == Some(prop)
                        && e.get("status").and_then(|p| p.as_str()) == Some("known")
                    {
                        entries.push((
                            e.get("signature").and_then(|p| p.as_str()).unwrap_or("").to_string(),
                            e.get("what").and_then(|p| p.as_str()).unwrap_or("").to_string(),
                        ));
                    }
                }
            }
        }
    }
    Known { entries }
}

impl Known {
    fn what(&self, sig: &str) -> Option<&str> {
        self.entries.iter().find(|(s, _)| s == sig).map(|(_, w)| w.as_str())
    }
}

fn record_pass<C: Serialize>(acc: &mut Acc, case: &C, o: &Outcome) {
    acc.evaluations += 1;
    *acc.classes.entry(o.class.clone()).or_insert(0) += 1;
    for (k, v) in &o.counters {
        *acc.counters.entry((*k).to_string()).or_insert(0) += v;
    }
    if let Some(t) = o.trace_hash {
        let js = serde_json::to_vec(case).unwrap_or_default();
        acc.pairs.push((fnv64(&js), t));
    }
    if o.nontrivial {
        let js = serde_json::to_vec(case).unwrap_or_default();
        let h = fnv64(&js);
        let fresh = acc.hashes.insert(h);
        if fresh && !acc.class_samples.contains_key(&o.class) && acc.class_samples.len() < 12 {
            let v = serde_json::from_slice::<Value>(&js).unwrap_or(Value::Null);
            acc.class_samples.insert(o.class.clone(), truncate_json(json!({"class": o.class, "case": v})));
        } else if fresh && acc.extra_samples.len() < 3 && acc.evaluations % 97 == 0 {
            let v = serde_json::from_slice::<Value>(&js).unwrap_or(Value::Null);
            acc.extra_samples.push(truncate_json(json!({"class": o.class, "case": v})));
        }
    }
}

fn write_replay<C: Serialize>(ctx: &Ctx, prop: &str, case: &C, f: &Failure, minimal: bool) -> String {
    let _ = std::fs::create_dir_all(&ctx.replay_dir);
    let js = serde_json::to_value(case).unwrap_or(Value::Null);
    let h = fnv64(js.to_string().as_bytes());
    let path = format!("{}/{}-{}-{:016x}.json", ctx.replay_dir, prop, BUILD, h);
    let doc = json!({
        "property": prop,
        "build": BUILD,
        "params": ctx.params,
        "seed": ctx.seed,
        "minimal": minimal,
        "signature": f.signature,
        "detail": f.detail,
        "case": js,
    });
    let _ = std::fs::write(&path, serde_json::to_string_pretty(&doc).unwrap());
    path
}

/// Run one case with the known-finding filter.  Ok(true) = passed or known, Err = genuine failure.
fn run_one<P: Prop>(
    ctx: &Ctx,
    known: &Known,
    acc: &RefCell<Acc>,
    case: &P::Case,
) -> Result<(), Failure> {
    if let Ok(want) = std::env::var("IPCV_FIND") {
        let js = serde_json::to_vec(case).unwrap_or_default();
        if format!("{:016x}", fnv64(&js)) == want {
            let f = Failure::new("found", "case located by hash (IPCV_FIND)");
            let p = write_replay(ctx, P::ID, case, &f, false);
            eprintln!("IPCV_FIND: wrote {}", p);
        }
    }
    if let Some(out) = &ctx.out {
        // remember the case being executed: if the library aborts the whole worker process, the
        // orchestrator turns this file into the replay file of the violation
        let doc = json!({"property": P::ID, "build": BUILD, "params": ctx.params, "seed": ctx.seed, "minimal": false,
            "signature": "worker-process-died", "detail": "the worker process was killed while executing this case", "case": case});
        let _ = std::fs::write(format!("{}.current", out), doc.to_string());
    }
    match P::exec(ctx, case) {
        Ok(o) => {
            let mut a = acc.borrow_mut();
            if !a.failed {
                record_pass(&mut a, case, &o);
            }
            Ok(())
        },
        Err(f) if f.inconclusive => {
            let mut a = acc.borrow_mut();
            if !a.failed {
                a.evaluations += 1;
                if a.inconclusive.len() < 20 {
                    a.inconclusive.push(f.detail.clone());
                }
            }
            if f.poisoned {
                a.poisoned = true;
            }
            Ok(())
        },
        Err(f) => {
            if !ctx.strict {
                if let Some(what) = known.what(&f.signature) {
                    let mut a = acc.borrow_mut();
                    if !a.failed {
                        a.evaluations += 1;
                        let e = a.known.entry(f.signature.clone()).or_insert((0, what.to_string()));
                        e.0 += 1;
                    }
                    if f.poisoned {
                        a.poisoned = true;
                    }
                    return Ok(());
                }
            }
            Err(f)
        },
    }
}

pub fn run<P: Prop>(ctx: &Ctx) -> i32 {
    let t0 = Instant::now();
    let known = load_known(P::ID);
    let acc = RefCell::new(Acc::default());
    P::setup(ctx);

    // Tier 0: regression cases (shrunk failures and known-finding probes), shard 0 only.
    if ctx.shard == 0 {
        let dir = format!("/verif/regress/{}", P::ID);
        if let Ok(rd) = std::fs::read_dir(&dir) {
            let mut files: Vec<_> = rd.filter_map(|e| e.ok()).map(|e| e.path()).collect();
            files.sort();
            for p in files {
                if p.extension().and_then(|e| e.to_str()) != Some("json") {
                    continue;
                }
                let Ok(s) = std::fs::read_to_string(&p) else { continue };
                let Ok(doc) = serde_json::from_str::<Value>(&s) else { continue };
                if let Some(b) = doc.get("build").and_then(|b| b.as_str()) {
                    if b != BUILD && b != "any" {
                        continue;
                    }
                }
                if !params_match(ctx, &doc) {
                    continue;
                }
                let Some(cv) = doc.get("case") else { continue };
                let Ok(case) = serde_json::from_value::<P::Case>(cv.clone()) else {
                    eprintln!("regress case {:?} does not parse for {}", p, P::ID);
                    continue;
                };
                acc.borrow_mut().regress += 1;
                let reps = if P::SCHEDULE_DEPENDENT { 5 } else { 1 };
                for _ in 0..reps {
                    if let Err(f) = run_one::<P>(ctx, &known, &acc, &case) {
                        let path = write_replay(ctx, P::ID, &case, &f, true);
                        let mut a = acc.borrow_mut();
                        a.violations.push(json!({"signature": f.signature, "detail": f.detail, "replay": path, "from": "regress"}));
                        break;
                    }
                }
            }
        }
    }

    // Tier 1: enumerated cases.
    let en = P::enumerated(ctx);
    let mut stop = !acc.borrow().violations.is_empty();
    if !stop {
        for (i, case) in en.iter().enumerate() {
            if (i as u32) % ctx.nshards != ctx.shard {
                continue;
            }
            acc.borrow_mut().enumerated += 1;
            if let Err(f) = run_one::<P>(ctx, &known, &acc, case) {
                let path = write_replay(ctx, P::ID, case, &f, true);
                acc.borrow_mut().violations.push(
                    json!({"signature": f.signature, "detail": f.detail, "replay": path, "from": "enumerated"}),
                );
                stop = true;
                break;
            }
            if acc.borrow().poisoned {
                break;
            }
        }
    }

    // Tier 2: generated cases.
    let total = P::cases(ctx);
    if !stop && total > 0 && !acc.borrow().poisoned {
        let cases = ctx.share(total);
        let seed = mix(mix(mix(ctx.seed, fnv64(P::ID.as_bytes())), if P::SAME_CASES_ACROSS_BUILDS { 0 } else { fnv64(BUILD.as_bytes()) }), mix(ctx.shard as u64, fnv64(format!("{:?}", ctx.params).as_bytes())));
        let config = Config {
            cases,
            rng_seed: RngSeed::Fixed(seed),
            failure_persistence: None,
            max_shrink_iters: if ctx.thorough { 3000 } else { 400 },
            max_global_rejects: 1 << 20,
            max_local_rejects: 1 << 20,
            ..Config::default()
        };
        let mut runner = TestRunner::new(config);
        let strategy = P::strategy(ctx);
        let first_failure: RefCell<Option<(P::Case, Failure)>> = RefCell::new(None);
        let last_failure: RefCell<Option<(P::Case, Failure)>> = RefCell::new(None);
        let failed_at: RefCell<Option<Instant>> = RefCell::new(None);
        // shrinking is bounded by wall-clock time as well (slow failures, e.g. watchdog expiries,
        // would otherwise take hours): after the budget every further candidate "passes", which
        // makes proptest settle on the smallest failing case found so far
        let shrink_budget = std::time::Duration::from_secs(if ctx.thorough { 300 } else { 45 });
        let result = runner.run(&strategy, |case| {
            if acc.borrow().poisoned && acc.borrow().failed {
                // cannot shrink reliably in a poisoned process: accept everything
                return Ok(());
            }
            if let Some(t) = *failed_at.borrow() {
                if t.elapsed() > shrink_budget {
                    return Ok(());
                }
            }
            match run_one::<P>(ctx, &known, &acc, &case) {
                Ok(()) => Ok(()),
                Err(f) => {
                    let mut a = acc.borrow_mut();
                    a.failed = true;
                    if f.poisoned {
                        a.poisoned = true;
                    }
                    if first_failure.borrow().is_none() {
                        *first_failure.borrow_mut() = Some((case.clone(), f.clone()));
                        *failed_at.borrow_mut() = Some(Instant::now());
                    }
                    *last_failure.borrow_mut() = Some((case.clone(), f.clone()));
                    Err(TestCaseError::fail(f.signature.clone()))
                },
            }
        });
        match result {
            Ok(()) => {},
            Err(TestError::Fail(_, minimal)) => {
                // re-validate the minimal case; fall back to the original failing case
                let (orig_case, orig_f) = first_failure.borrow().clone().unwrap();
                let mut chosen: Option<(P::Case, Failure, bool)> = None;
                let out_of_time = failed_at.borrow().map(|t| t.elapsed() > shrink_budget).unwrap_or(false);
                if out_of_time {
                    // the smallest case that was actually seen failing
                    if let Some((c, f)) = last_failure.borrow().clone() {
                        chosen = Some((c, f, false));
                    }
                } else if !acc.borrow().poisoned {
                    let reps = if P::SCHEDULE_DEPENDENT { 20 } else { 1 };
                    for _ in 0..reps {
                        if let Err(f) = P::exec(ctx, &minimal) {
                            if !f.inconclusive && (ctx.strict || known.what(&f.signature).is_none()) {
                                chosen = Some((minimal.clone(), f, true));
                                break;
                            }
                        }
                    }
                }
                let (c, f, min) = chosen.unwrap_or((orig_case, orig_f, false));
                let path = write_replay(ctx, P::ID, &c, &f, min);
                acc.borrow_mut().violations.push(
                    json!({"signature": f.signature, "detail": f.detail, "replay": path, "from": "generated"}),
                );
            },
            Err(TestError::Abort(reason)) => {
                acc.borrow_mut().inconclusive.push(format!("proptest aborted: {}", reason));
            },
        }
    }

    let a = acc.into_inner();
    let mut samples: Vec<Value> = a.class_samples.values().cloned().collect();
    samples.extend(a.extra_samples.iter().cloned());
    let report = json!({
        "property": P::ID,
        "build": BUILD,
        "params": ctx.params,
        "shard": ctx.shard,
        "nshards": ctx.nshards,
        "seed": ctx.seed,
        "evaluations": a.evaluations,
        "enumerated": a.enumerated,
        "enumerated_total": en.len(),
        "regress": a.regress,
        "nontrivial_hashes": a.hashes.iter().map(|h| format!("{:016x}", h)).collect::<Vec<_>>(),
        "classes": a.classes,
        "counters": a.counters,
        "samples": samples,
        "known": a.known.iter().map(|(k, (n, w))| json!({"signature": k, "count": n, "what": w})).collect::<Vec<_>>(),
        "violations": a.violations,
        "kernel_eof_races_masked": kernel_eof_races(),
        "pairs": a.pairs.iter().map(|(c, t)| format!("{:016x}:{:016x}", c, t)).collect::<Vec<_>>(),
        "inconclusive": a.inconclusive,
        "wall_s": t0.elapsed().as_secs_f64(),
    });
    let text = serde_json::to_string(&report).unwrap();
    if let Some(p) = &ctx.out {
        let _ = std::fs::remove_file(format!("{}.current", p));
    }
    match &ctx.out {
        Some(p) => std::fs::write(p, text).expect("write report"),
        None => println!("{}", text),
    }
    if !a.violations.is_empty() {
        1
    } else if !a.inconclusive.is_empty() && a.evaluations == 0 {
        2
    } else {
        0
    }
}

#[cfg(not(feature = "asan"))]
fn kernel_eof_races() -> u64 {
    crate::interpose::N_KERNEL_EOF_RACE.load(std::sync::atomic::Ordering::SeqCst)
}
#[cfg(feature = "asan")]
fn kernel_eof_races() -> u64 {
    0
}

fn params_match(ctx: &Ctx, doc: &Value) -> bool {
    // a regress/replay file may pin parameters (e.g. sndbuf); it only runs in a job that has them
    if let Some(p) = doc.get("params").and_then(|p| p.as_object()) {
        for (k, v) in p {
            let want = v.as_str().map(|s| s.to_string()).unwrap_or_else(|| v.to_string());
            if ctx.params.get(k).map(|s| s.as_str()) != Some(want.as_str()) {
                return false;
            }
        }
    }
    true
}

/// Replay one saved case without proptest.  Exit code 1 + VIOLATION line if it fails again.
pub fn replay<P: Prop>(ctx: &Ctx, doc: &Value, path: &str) -> i32 {
    let case: P::Case = match serde_json::from_value(doc.get("case").cloned().unwrap_or(Value::Null)) {
        Ok(c) => c,
        Err(e) => {
            eprintln!("cannot parse case: {}", e);
            return 2;
        },
    };
    P::setup(ctx);
    let reps = if P::SCHEDULE_DEPENDENT { 200 } else { 1 };
    for i in 0..reps {
        match P::exec(ctx, &case) {
            Ok(_) => {},
            Err(f) if f.inconclusive => {
                eprintln!("inconclusive: {}", f.detail);
                return 2;
            },
            Err(f) => {
                println!("replay attempt {}: signature={} detail={}", i, f.signature, f.detail);
                println!("VIOLATION property={} replay={}", P::ID, path);
                return 1;
            },
        }
    }
    println!("replay passed ({} repetition(s))", reps);
    0
}

/// Map a generated index monotonically onto 0..len (never `%`, so shrinking works).
pub fn pick_idx(raw: u16, len: usize) -> usize {
    debug_assert!(len > 0);
    ((raw as usize) * len) >> 16
}

pub fn boxed<S: Strategy + 'static>(s: S) -> BoxedStrategy<S::Value> {
    s.boxed()
}
