//! 3.5 Descriptor / mapping / file ledger: snapshots of /proc/self/fd, of the shared-memory lines of
//! /proc/self/maps and of the private TMPDIR.

use std::collections::BTreeMap;

#[derive(Clone, Debug, PartialEq, Eq)]
pub struct Snapshot {
    pub fds: BTreeMap<i32, String>,
    pub maps: Vec<String>,
    pub tmp: Vec<String>,
}

pub fn fd_map() -> BTreeMap<i32, String> {
    let mut m = BTreeMap::new();
    // read the directory through a raw descriptor we know, so that it can be excluded
    if let Ok(rd) = std::fs::read_dir("/proc/self/fd") {
        let mut entries = vec![];
        for e in rd.flatten() {
            if let Ok(n) = e.file_name().to_string_lossy().parse::<i32>() {
                let target = std::fs::read_link(e.path()).map(|p| p.to_string_lossy().to_string()).unwrap_or_default();
                entries.push((n, target));
            }
        }
        for (n, t) in entries {
            // the descriptor of the directory stream itself shows up as /proc/<pid>/fd
            if t.starts_with("/proc/") && t.ends_with("/fd") {
                continue;
            }
            m.insert(n, t);
        }
    }
    m
}

pub fn shm_maps() -> Vec<String> {
    let s = std::fs::read_to_string("/proc/self/maps").unwrap_or_default();
    let mut v: Vec<String> = s
        .lines()
        .filter(|l| l.contains("ipc-channel-shared-memory"))
        .map(|l| l.to_string())
        .collect();
    v.sort();
    v
}

pub fn tmp_listing() -> Vec<String> {
    let dir = std::env::var("TMPDIR").unwrap_or_else(|_| "/tmp".into());
    let mut v = vec![];
    fn walk(p: &std::path::Path, v: &mut Vec<String>) {
        if let Ok(rd) = std::fs::read_dir(p) {
            for e in rd.flatten() {
                v.push(e.path().to_string_lossy().to_string());
                if e.file_type().map(|t| t.is_dir()).unwrap_or(false) {
                    walk(&e.path(), v);
                }
            }
        }
    }
    walk(std::path::Path::new(&dir), &mut v);
    v.sort();
    v
}

pub fn snapshot() -> Snapshot {
    Snapshot { fds: fd_map(), maps: shm_maps(), tmp: tmp_listing() }
}

/// Human-readable difference `after - before` (empty string if equal).
pub fn diff(before: &Snapshot, after: &Snapshot) -> String {
    let mut out = String::new();
    for (fd, t) in &after.fds {
        match before.fds.get(fd) {
            None => out.push_str(&format!("+fd {} -> {}; ", fd, t)),
            Some(b) if kind_of(b) != kind_of(t) => out.push_str(&format!("~fd {}: {} -> {}; ", fd, b, t)),
            _ => {},
        }
    }
    for (fd, t) in &before.fds {
        if !after.fds.contains_key(fd) {
            out.push_str(&format!("-fd {} ({}); ", fd, t));
        }
    }
    if before.maps.len() != after.maps.len() {
        out.push_str(&format!("shared mappings {} -> {}; ", before.maps.len(), after.maps.len()));
        for l in &after.maps {
            if !before.maps.contains(l) {
                out.push_str(&format!("+map {}; ", l));
            }
        }
    }
    for f in &after.tmp {
        if !before.tmp.contains(f) {
            out.push_str(&format!("+file {}; ", f));
        }
    }
    out
}

fn kind_of(t: &str) -> &str {
    // socket:[123] -> socket ; anon_inode:[eventpoll] -> that ; paths stay
    if t.starts_with("socket:") {
        "socket"
    } else if t.starts_with("pipe:") {
        "pipe"
    } else {
        t
    }
}

pub fn count_fds() -> usize {
    fd_map().len()
}
