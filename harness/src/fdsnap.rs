//! 3.5 Descriptor / mapping / file ledger: snapshots of /proc/self/fd, of the shared-memory lines of
//! /proc/self/maps and of the private TMPDIR.

use std::collections::BTreeMap;

#[derive(Clone, Debug, PartialEq, Eq)]
pub struct Snapshot {
    pub fds: BTreeMap<i32, String>,
    pub maps: Vec<String>,
    pub tmp: Vec<String>,
}

pub fn fd_map() -> BTreeMap<i32, String> {
    let mut m = BTreeMap::new();
    // read the directory through a raw descriptor we know, so that it can be excluded
    if let Ok(rd) = std::fs::read_dir("/proc/self/fd") {
        let mut entries = vec![];
        for e in rd.flatten() {
            if let Ok(n) = e.file_name().to_string_lossy().parse::<i32>() {
                let target = std::fs::read_link(e.path()).map(|p| p.to_string_lossy().to_string()).unwrap_or_default();
                entries.push((n, target));
            }
        }
        for (n, t) in entries {
            // the descriptor of the directory stream itself shows up as /proc/<pid>/fd
            if t.starts_with("/proc/") && t.ends_with("/fd") {
                continue;
            }
            m.insert(n, t);
        }
    }
    m
}

pub fn shm_maps() -> Vec<String> {
    let s = std::fs::read_to_string("/proc/self/maps").unwrap_or_default();
    let mut v: Vec<String> = s
        .lines()
        .filter(|l| l.contains("ipc-channel-shared-memory"))
        .map(|l| l.to_string())
        .collect();
    v.sort();
    v
}

pub fn tmp_listing() -> Vec<String> {
    let dir = std::env::var("TMPDIR").unwrap_or_else(|_| "/tmp".into());
    let mut v = vec![];
    fn walk(p: &std::path::Path, v: &mut Vec<String>) {
        if let Ok(rd) = std::fs::read_dir(p) {
            for e in rd.flatten() {
                v.push(e.path().to_string_lossy().to_string());
                if e.file_type().map(|t| t.is_dir()).unwrap_or(false) {
                    walk(&e.path(), v);
                }
            }
        }
    }
    walk(std::path::Path::new(&dir), &mut v);
    v.sort();
    v
}

pub fn snapshot() -> Snapshot {
    Snapshot { fds: fd_map(), maps: shm_maps(), tmp: tmp_listing() }
}

/// Human-readable difference `after - before` (empty string if equal).
pub fn diff(before: &Snapshot, after: &Snapshot) -> String {
    let mut out = String::new();
    for (fd, t) in &after.fds {
        match before.fds.get(fd) {
            None => out.push_str(&format!("+fd {} -> {}; ", fd, t)),
            Some(b) if kind_of(b) != kind_of(t) => out.push_str(&format!("~fd {}: {} -> {}; ", fd, b, t)),
            _ => {},
        }
    }
    for (fd, t) in &before.fds {
        if !after.fds.contains_key(fd) {
            out.push_str(&format!("-fd {} ({}); ", fd, t));
        }
    }
    if before.maps.len() != after.maps.len() {
        out.push_str(&format!("shared mappings {} -> {}; ", before.maps.len(), after.maps.len()));
        for l in &after.maps {
            if !before.maps.contains(l) {
                out.push_str(&format!("+map {}; ", l));
            }
        }
    }
    for f in &after.tmp {
        if !before.tmp.contains(f) {
            out.push_str(&format!("+file {}; ", f));
        }
    }
    out
}

fn kind_of(t: &str) -> &str {
    // socket:[123] -> socket ; anon_inode:[eventpoll] -> that ; paths stay
    if t.starts_with("socket:") {
        "socket"
    } else if t.starts_with("pipe:") {
        "pipe"
    } else {
        t
    }
}

pub fn count_fds() -> usize {
    fd_map().len()
}


/// Descriptor number 0 as a resource under test.  Long-lived services run with stdin closed, and
/// then channel ends and attachments land on descriptor 0; "valid descriptor = greater than
/// zero" is a classic slip.  The worker owns a /dev/null placeholder at 0 (`init`); a case may
/// `free` it right before a receive, so that whatever the library receives or creates next gets
/// number 0, and `restore`s it at its end - which reports whoever still occupies the number.
pub mod fd0 {
    use std::sync::atomic::{AtomicBool, Ordering::SeqCst};
    static OURS: AtomicBool = AtomicBool::new(false);
    static FREED: AtomicBool = AtomicBool::new(false);

    fn is_devnull(fd: i32) -> bool {
        let mut st: libc::stat = unsafe { std::mem::zeroed() };
        if unsafe { libc::fstat(fd, &mut st) } != 0 {
            return false;
        }
        (st.st_mode & libc::S_IFMT) == libc::S_IFCHR && st.st_rdev == libc::makedev(1, 3)
    }

    fn put_devnull_at_0() {
        let n = unsafe { libc::open(b"/dev/null\0".as_ptr() as *const libc::c_char, libc::O_RDWR) };
        if n > 0 {
            unsafe { libc::dup2(n, 0) };
            crate::interpose::raw_close(n);
        }
    }

    /// Worker start-up (single-threaded): descriptor 0 becomes a /dev/null of our own.
    pub fn init() {
        put_devnull_at_0();
        OURS.store(is_devnull(0), SeqCst);
    }

    /// Close the placeholder (no-op when it is not there: not initialised, or freed already).
    pub fn free() -> bool {
        if OURS.load(SeqCst) && is_devnull(0) {
            crate::interpose::raw_close(0);
            FREED.store(true, SeqCst);
            true
        } else {
            false
        }
    }

    /// Put the placeholder back if number 0 is free right now (keeps the "was freed" record).
    pub fn refill() {
        if OURS.load(SeqCst) && unsafe { libc::fcntl(0, libc::F_GETFD) } == -1 {
            put_devnull_at_0();
        }
    }

    pub fn was_freed() -> bool {
        FREED.load(SeqCst)
    }

    /// Put the placeholder back.  Call only when everything the case created has been dropped:
    /// `Err(what)` = descriptor 0 is still open and is not the placeholder (it is evicted).
    pub fn restore() -> Result<(), String> {
        if !OURS.load(SeqCst) || !FREED.swap(false, SeqCst) {
            return Ok(());
        }
        if is_devnull(0) {
            return Ok(());
        }
        let occupied = unsafe { libc::fcntl(0, libc::F_GETFD) } != -1;
        let what = std::fs::read_link("/proc/self/fd/0").map(|p| p.display().to_string()).unwrap_or_default();
        put_devnull_at_0();
        if occupied {
            Err(what)
        } else {
            Ok(())
        }
    }
}
