//! Entry points for the coverage-guided (libFuzzer) targets in /verif/fuzz.
//!
//! Each entry decodes the fuzzer's bytes into a structured case of the corresponding property and
//! runs that property's executor + oracle; a failure of the oracle panics (libFuzzer then saves
//! the input as a crash artifact, which `check.py` turns into the VIOLATION line).

use crate::engine::Failure;

fn report(prop: &str, r: Result<crate::engine::Outcome, Failure>) {
    if let Err(f) = r {
        if !f.inconclusive {
            eprintln!("VIOLATION-IN-FUZZ-TARGET property={} signature={} detail={}", prop, f.signature, f.detail);
            panic!("oracle of {} failed: {}", prop, f.signature);
        }
    }
}

/// C16: byte 0 = expected type, byte 1 = receive path, byte 2 = number of attachments (0..8) whose
/// kinds come from the next bytes; everything after is the payload put on the wire.
#[cfg(not(feature = "inproc"))]
pub fn decode(data: &[u8]) {
    use crate::props::c16::{self, Att, Case, Gen};
    use std::sync::Once;
    static INIT: Once = Once::new();
    INIT.call_once(|| {
        crate::install_panic_hook();
        c16::warm_up_router();
    });
    if data.len() < 3 {
        return;
    }
    let ty = data[0] % c16::NTYPES;
    let via = data[1] % 4; // the router path is exercised by the generated tiers (slow under fuzzing)
    let n = (data[2] % 9) as usize;
    let mut atts = vec![];
    let mut i = 3;
    while atts.len() < n && i < data.len() {
        atts.push(match data[i] % 3 {
            0 => Att::Tx,
            1 => Att::Rx,
            _ => Att::Shm,
        });
        i += 1;
    }
    let case = Case { ty, gen: Gen::Raw(data[i..].to_vec()), atts, via, fd0: false, keep_original: false };
    // fresh thread per case, like the registered check (per-thread attachment side tables)
    let r = std::thread::spawn(move || c16::run_case(&case)).join();
    match r {
        Ok(r) => report("C16", r),
        Err(_) => panic!("C16: panic outside the guarded decode: {:?}", crate::take_panics()),
    }
}

/// C19/C03/C04/C09 world model: the bytes are decoded into a program of the lock-step interpreter.
pub fn program(data: &[u8]) {
    use crate::world::{Op, Size, World};
    use crate::node::{EpKind, NP};
    use std::sync::Once;
    static INIT: Once = Once::new();
    INIT.call_once(|| {
        crate::install_panic_hook();
        crate::interpose::SNDBUF_LIE.store(4096, std::sync::atomic::Ordering::SeqCst);
        crate::props::c01::measure_capacities();
    });
    let (f1, f) = crate::props::c01::capacities();
    let mut w = World::new(f1, f);
    let mut it = data.iter().copied();
    let mut next = || it.next();
    let sel = |a: u8, b: u8| ((a as u16) << 8) | b as u16;
    let mut nops = 0;
    while let Some(code) = next() {
        nops += 1;
        if nops > 60 {
            break;
        }
        let a = next().unwrap_or(0);
        let b = next().unwrap_or(0);
        let op = match code % 20 {
            0 | 1 => Op::NewChan,
            2 => Op::NewBytesChan,
            3 => Op::CloneTx(sel(a, b)),
            4 => Op::DropTx(sel(a, b)),
            5 => Op::DropRx(sel(a, b)),
            6..=9 => {
                let size = match b % 6 {
                    0 | 1 => Size::Tiny,
                    2 => Size::Small(sel(b, a)),
                    3 => Size::OnePacket,
                    4 => Size::OverOne,
                    _ => Size::Multi(2 + a % 5),
                };
                let c = next().unwrap_or(0);
                let leaf = |x: u8, y: u8| match x % 9 {
                    0 => NP::Ep { kind: EpKind::Tx, sel: sel(y, x) },
                    1 => NP::Ep { kind: EpKind::Rx, sel: sel(y, x) },
                    2 => NP::Ep { kind: EpKind::OTx, sel: sel(y, x) },
                    3 => NP::Ep { kind: EpKind::ORx, sel: sel(y, x) },
                    4 => NP::Ep { kind: EpKind::BTx, sel: sel(y, x) },
                    5 => NP::Ep { kind: EpKind::BRx, sel: sel(y, x) },
                    6 => NP::Shm { len: y as u32 * 37, seed: x as u64, fill: None },
                    7 => NP::U8(y),
                    _ => NP::Unit,
                };
                let tree = match c % 4 {
                    0 => leaf(a, b),
                    1 => NP::List(vec![leaf(a, b), leaf(b, c), leaf(c, a)]),
                    2 => NP::Opt(Some(Box::new(NP::Pair(Box::new(leaf(a, c)), Box::new(leaf(c, b)))))),
                    _ => NP::Map(vec![("k".into(), leaf(a, b)), ("j".into(), leaf(b, a))]),
                };
                Op::Send { tx: sel(a, b), size, tree }
            },
            10..=12 => Op::Recv { rx: sel(a, b), mode: b % 4 },
            13 => Op::SetNew,
            14 => Op::SetAdd { set: sel(a, b), rx: sel(b, a) },
            15 => Op::SetSelect(sel(a, b)),
            16 => Op::SrvNew,
            17 => Op::SrvConnect(sel(a, b)),
            18 => Op::SrvAccept(sel(a, b)),
            _ => Op::SetDrop(sel(a, b)),
        };
        if let Err(f) = w.step(&op) {
            report("C19", Err(f));
            return;
        }
    }
    report("C19", w.probe_all().map(|_| crate::engine::Outcome::new(false, "")));
}
