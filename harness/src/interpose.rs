//! I1 - link-time interposition of the libc boundary.
//!
//! The harness executable defines the libc entry points ipc-channel (and mio, tempfile, std) call.
//! The static linker binds their references to these definitions; each wrapper performs the real
//! operation with a raw `syscall` and consults *plans* kept in atomics (no allocation, no locks,
//! no TLS in here; thread identity by `gettid`).  Plans are part of the generated case.
//!
//! Under the `asan` feature the send side and `getsockopt` are interposed as usual, while the
//! `recv`/`recvmsg` wrappers call AddressSanitizer's own interceptors (which keep checking the
//! buffers) and only add the masking of the kernel's end-of-file race.
#![allow(clippy::missing_safety_doc)]

use libc::{c_int, c_void, size_t, socklen_t, ssize_t};
use std::sync::atomic::{AtomicI32, AtomicI64, AtomicU32, AtomicU64, AtomicUsize, Ordering::SeqCst};

// ------------------------------------------------------------------------------------------------
// Plans

/// Value reported for SO_SNDBUF (0 = tell the truth).
pub static SNDBUF_LIE: AtomicUsize = AtomicUsize::new(0);
/// If non-zero, sockets created through socketpair/socket/accept really get this SO_SNDBUF.
pub static SNDBUF_REAL: AtomicUsize = AtomicUsize::new(0);

/// Thread (tid) whose transmissions are subject to the fault / crash plan; 0 = nobody.
pub static ARMED_TID: AtomicI32 = AtomicI32::new(0);
/// Bit i set => the i-th transmission attempt (sendmsg/send) of the armed thread fails with ENOBUFS.
pub static ENOBUFS_MASK: AtomicU64 = AtomicU64::new(0);
/// errno the masked attempts fail with (ENOBUFS unless a case asks for another transient error)
pub static FAULT_ERRNO: AtomicI32 = AtomicI32::new(libc::ENOBUFS);
/// Number of transmission attempts of the armed thread so far.
pub static TX_ATTEMPTS: AtomicU32 = AtomicU32::new(0);
/// Kill the process (SIGKILL) immediately before the k-th intercepted call
/// (socketpair, sendmsg, send, close) of the armed thread; -1 = never.
pub static DIE_BEFORE: AtomicI64 = AtomicI64::new(-1);
/// Number of intercepted calls of the armed thread so far.
pub static CALLS: AtomicU32 = AtomicU32::new(0);

/// EINTR plan for epoll_wait: bit i set => the i-th call (process wide, since arming) fails with EINTR.
pub static EINTR_MASK: AtomicU64 = AtomicU64::new(0);
pub static EPOLL_CALLS: AtomicU32 = AtomicU32::new(0);
pub static EINTR_INJECTED: AtomicU32 = AtomicU32::new(0);

// ------------------------------------------------------------------------------------------------
// Ledgers

pub static N_SENDMSG: AtomicU64 = AtomicU64::new(0);
pub static N_SEND: AtomicU64 = AtomicU64::new(0);
pub static N_SOCKETPAIR: AtomicU64 = AtomicU64::new(0);
pub static N_TRUNC: AtomicU64 = AtomicU64::new(0);
pub static N_CTRUNC: AtomicU64 = AtomicU64::new(0);
pub static N_EBADF_CLOSE: AtomicU64 = AtomicU64::new(0);
pub static N_SENTINEL_CLOSE: AtomicU64 = AtomicU64::new(0);
pub static LAST_BAD_CLOSE_FD: AtomicI32 = AtomicI32::new(-1);
pub static ENOBUFS_INJECTED: AtomicU32 = AtomicU32::new(0);
/// Times the kernel reported end-of-file on a socket whose queue still held data (see
/// `eof_race_data_pending`); the wrapper then re-issues the call, as a correct kernel would have
/// returned that data in the first place.
pub static N_KERNEL_EOF_RACE: AtomicU64 = AtomicU64::new(0);

/// Sentinel descriptors planted by the harness: bit set for fd numbers < 4096.
const SENT_WORDS: usize = 64;
#[allow(clippy::declare_interior_mutable_const)]
const Z64: AtomicU64 = AtomicU64::new(0);
pub static SENTINELS: [AtomicU64; SENT_WORDS] = [Z64; SENT_WORDS];

pub fn sentinel_set(fd: c_int, on: bool) {
    if fd < 0 || fd as usize >= SENT_WORDS * 64 {
        return;
    }
    let (w, b) = (fd as usize / 64, fd as usize % 64);
    if on {
        SENTINELS[w].fetch_or(1 << b, SeqCst);
    } else {
        SENTINELS[w].fetch_and(!(1 << b), SeqCst);
    }
}
fn sentinel_is(fd: c_int) -> bool {
    if fd < 0 || fd as usize >= SENT_WORDS * 64 {
        return false;
    }
    SENTINELS[fd as usize / 64].load(SeqCst) & (1 << (fd as usize % 64)) != 0
}

// Event log of the traced thread (or of all threads when LOG_TID == -1).
pub const EV_SOCKETPAIR: u64 = 1;
pub const EV_SENDMSG: u64 = 2;
pub const EV_SEND: u64 = 3;
pub const EV_CLOSE: u64 = 4;
pub const EV_RECVMSG: u64 = 5;
pub const EV_RECV: u64 = 6;
pub const LOG_CAP: usize = 8192;
pub static LOG_TID: AtomicI32 = AtomicI32::new(0); // 0 = off, -1 = every thread
pub static LOG_LEN: AtomicUsize = AtomicUsize::new(0);
pub static LOG: [AtomicU64; LOG_CAP] = [Z64; LOG_CAP];

#[derive(Clone, Copy, Debug, serde::Serialize)]
pub struct Event {
    pub kind: u64,
    pub fd: i32,
    pub len: u64,      // bytes requested (send side) / offered (receive side)
    pub ok: bool,      // call succeeded
    pub nfds: u32,     // descriptors in SCM_RIGHTS (sendmsg) / received (recvmsg)
    pub injected: bool,
}

fn log_event(tid: c_int, kind: u64, fd: c_int, len: usize, ok: bool, nfds: u32, injected: bool) {
    let t = LOG_TID.load(SeqCst);
    if t == 0 || (t != -1 && t != tid) {
        return;
    }
    let i = LOG_LEN.fetch_add(1, SeqCst);
    if i >= LOG_CAP {
        return;
    }
    // layout: kind:4 | ok:1 | inj:1 | nfds:10 | fd:16 | len:32
    let v = (kind << 60)
        | ((ok as u64) << 59)
        | ((injected as u64) << 58)
        | (((nfds as u64) & 0x3ff) << 48)
        | (((fd as u64) & 0xffff) << 32)
        | ((len as u64) & 0xffff_ffff);
    LOG[i].store(v, SeqCst);
}

pub fn log_start(tid: c_int) {
    LOG_LEN.store(0, SeqCst);
    LOG_TID.store(tid, SeqCst);
}
pub fn log_stop() -> Vec<Event> {
    LOG_TID.store(0, SeqCst);
    let n = LOG_LEN.load(SeqCst).min(LOG_CAP);
    (0..n)
        .map(|i| {
            let v = LOG[i].load(SeqCst);
            Event {
                kind: v >> 60,
                ok: (v >> 59) & 1 == 1,
                injected: (v >> 58) & 1 == 1,
                nfds: ((v >> 48) & 0x3ff) as u32,
                fd: ((v >> 32) & 0xffff) as i32,
                len: v & 0xffff_ffff,
            }
        })
        .collect()
}

// ------------------------------------------------------------------------------------------------
// Shared page: schedule gate + logical clock (shared with forked children)

pub const MAX_PART: usize = 16;
pub const SCHED_CAP: usize = 4096;

#[repr(C)]
pub struct Shared {
    pub clock: AtomicU64,
    pub gate_on: AtomicU32,
    pub sched_len: AtomicU32,
    pub sched_pos: AtomicU32,
    pub part_tid: [AtomicI32; MAX_PART],
    pub sched: [AtomicU32; SCHED_CAP],
    pub scratch: [AtomicU64; 64],
}

static SHARED_PTR: AtomicUsize = AtomicUsize::new(0);

pub fn shared() -> &'static Shared {
    let p = SHARED_PTR.load(SeqCst);
    if p != 0 {
        return unsafe { &*(p as *const Shared) };
    }
    let len = std::mem::size_of::<Shared>();
    let addr = unsafe {
        libc::mmap(
            std::ptr::null_mut(),
            len,
            libc::PROT_READ | libc::PROT_WRITE,
            libc::MAP_SHARED | libc::MAP_ANONYMOUS,
            -1,
            0,
        )
    };
    assert!(addr != libc::MAP_FAILED);
    // zeroed memory is a valid Shared
    match SHARED_PTR.compare_exchange(0, addr as usize, SeqCst, SeqCst) {
        Ok(_) => unsafe { &*(addr as *const Shared) },
        Err(q) => {
            unsafe { libc::munmap(addr, len) };
            unsafe { &*(q as *const Shared) }
        },
    }
}

/// Logical clock: strictly increasing stamps shared by all threads and forked processes.
pub fn stamp() -> u64 {
    shared().clock.fetch_add(1, SeqCst) + 1
}

pub fn gettid() -> c_int {
    unsafe { libc::syscall(libc::SYS_gettid) as c_int }
}

/// Install a schedule: sequence of participant ids; each transmission of a registered participant
/// waits for its turn.  `register_participant` must be called by each participant thread/process.
pub fn gate_install(schedule: &[u32]) {
    let s = shared();
    assert!(schedule.len() <= SCHED_CAP);
    s.gate_on.store(0, SeqCst);
    for p in s.part_tid.iter() {
        p.store(0, SeqCst);
    }
    for (i, &p) in schedule.iter().enumerate() {
        s.sched[i].store(p, SeqCst);
    }
    s.sched_len.store(schedule.len() as u32, SeqCst);
    s.sched_pos.store(0, SeqCst);
    s.gate_on.store(1, SeqCst);
}
pub fn gate_remove() {
    let s = shared();
    s.gate_on.store(0, SeqCst);
    for p in s.part_tid.iter() {
        p.store(0, SeqCst);
    }
}
pub fn register_participant(id: usize) {
    shared().part_tid[id].store(gettid(), SeqCst);
}
/// The participant has finished: its remaining schedule slots (if any) are skipped.
pub fn unregister_participant(id: usize) {
    shared().part_tid[id].store(-1, SeqCst);
}
pub fn gate_position() -> u32 {
    shared().sched_pos.load(SeqCst)
}

/// Returns Some(participant) if this thread must be gated.
fn gate_enter(tid: c_int) -> Option<u32> {
    let p = SHARED_PTR.load(SeqCst);
    if p == 0 {
        return None;
    }
    let s = unsafe { &*(p as *const Shared) };
    if s.gate_on.load(SeqCst) == 0 {
        return None;
    }
    let me = (0..MAX_PART).find(|&i| s.part_tid[i].load(SeqCst) == tid)? as u32;
    // wait for our turn
    let mut spins = 0u64;
    loop {
        if s.gate_on.load(SeqCst) == 0 {
            return None;
        }
        let pos = s.sched_pos.load(SeqCst);
        if pos >= s.sched_len.load(SeqCst) {
            // schedule exhausted: run free
            return None;
        }
        let head = s.sched[pos as usize].load(SeqCst);
        if head == me {
            return Some(me);
        }
        if (head as usize) >= MAX_PART || s.part_tid[head as usize].load(SeqCst) == -1 {
            // the participant whose turn it is has finished: skip its slot
            let _ = s.sched_pos.compare_exchange(pos, pos + 1, SeqCst, SeqCst);
            continue;
        }
        spins += 1;
        if spins < 200 {
            std::hint::spin_loop();
        } else {
            unsafe { libc::syscall(libc::SYS_sched_yield) };
        }
    }
}
fn gate_leave() {
    shared().sched_pos.fetch_add(1, SeqCst);
}

// ------------------------------------------------------------------------------------------------
// helpers

fn set_errno(e: c_int) {
    unsafe { *libc::__errno_location() = e };
}

/// Called before each intercepted call of the armed thread that counts as a crash point.
fn crash_point(tid: c_int) {
    if ARMED_TID.load(SeqCst) != tid {
        return;
    }
    let k = CALLS.fetch_add(1, SeqCst) as i64;
    if DIE_BEFORE.load(SeqCst) == k {
        unsafe {
            libc::syscall(libc::SYS_kill, libc::syscall(libc::SYS_getpid), libc::SIGKILL);
        }
    }
}

/// Returns true if this transmission attempt of the armed thread must fail with ENOBUFS.
fn enobufs_now(tid: c_int) -> bool {
    if ARMED_TID.load(SeqCst) != tid {
        return false;
    }
    let i = TX_ATTEMPTS.fetch_add(1, SeqCst);
    i < 64 && (ENOBUFS_MASK.load(SeqCst) >> i) & 1 == 1
}

pub fn arm(tid: c_int, enobufs_mask: u64, die_before: i64) {
    TX_ATTEMPTS.store(0, SeqCst);
    CALLS.store(0, SeqCst);
    ENOBUFS_INJECTED.store(0, SeqCst);
    ENOBUFS_MASK.store(enobufs_mask, SeqCst);
    DIE_BEFORE.store(die_before, SeqCst);
    ARMED_TID.store(tid, SeqCst);
}
/// Like `arm`, but the masked attempts fail with `errno` instead of ENOBUFS.
pub fn arm_errno(tid: c_int, mask: u64, errno: c_int) {
    FAULT_ERRNO.store(errno, SeqCst);
    arm(tid, mask, -1);
}
pub fn disarm() {
    FAULT_ERRNO.store(libc::ENOBUFS, SeqCst);
    ARMED_TID.store(0, SeqCst);
    ENOBUFS_MASK.store(0, SeqCst);
    DIE_BEFORE.store(-1, SeqCst);
}

pub fn arm_eintr(mask: u64) {
    EPOLL_CALLS.store(0, SeqCst);
    EINTR_INJECTED.store(0, SeqCst);
    EINTR_MASK.store(mask, SeqCst);
}

fn apply_real_sndbuf(fd: c_int) {
    let v = SNDBUF_REAL.load(SeqCst);
    if v != 0 && fd >= 0 {
        let v = v as c_int;
        unsafe {
            libc::syscall(
                libc::SYS_setsockopt,
                fd,
                libc::SOL_SOCKET,
                libc::SO_SNDBUF,
                &v as *const c_int,
                std::mem::size_of::<c_int>(),
            );
        }
    }
}

// Raw helpers for harness code that must bypass the wrappers (sentinels etc.).
pub fn raw_close(fd: c_int) -> c_int {
    unsafe { libc::syscall(libc::SYS_close, fd) as c_int }
}
pub fn raw_dup_to(oldfd: c_int, newfd: c_int) -> c_int {
    unsafe { libc::syscall(libc::SYS_dup3, oldfd, newfd, libc::O_CLOEXEC) as c_int }
}

// ------------------------------------------------------------------------------------------------
// wrappers

#[no_mangle]
pub unsafe extern "C" fn getsockopt(
    fd: c_int,
    level: c_int,
    name: c_int,
    val: *mut c_void,
    len: *mut socklen_t,
) -> c_int {
    let r = libc::syscall(libc::SYS_getsockopt, fd, level, name, val, len) as c_int;
    if r == 0 && level == libc::SOL_SOCKET && name == libc::SO_SNDBUF {
        let lie = SNDBUF_LIE.load(SeqCst);
        if lie != 0 && !val.is_null() && !len.is_null() && *len as usize >= 4 {
            // the kernel writes an int; ipc-channel reads a zero-initialised usize
            *(val as *mut c_int) = lie as c_int;
        }
    }
    r
}

unsafe fn count_fds(msg: *const libc::msghdr) -> u32 {
    if msg.is_null() || (*msg).msg_control.is_null() || ((*msg).msg_controllen as usize) < 16 {
        return 0;
    }
    let c = (*msg).msg_control as *const libc::cmsghdr;
    if (*c).cmsg_level == libc::SOL_SOCKET && (*c).cmsg_type == libc::SCM_RIGHTS {
        (((*c).cmsg_len as usize).saturating_sub(16) / 4) as u32
    } else {
        0
    }
}

unsafe fn iov_total(msg: *const libc::msghdr) -> usize {
    if msg.is_null() {
        return 0;
    }
    let mut t = 0usize;
    for i in 0..(*msg).msg_iovlen as usize {
        t += (*(*msg).msg_iov.add(i)).iov_len;
    }
    t
}

#[no_mangle]
pub unsafe extern "C" fn sendmsg(fd: c_int, msg: *const libc::msghdr, flags: c_int) -> ssize_t {
    let tid = gettid();
    let gated = gate_enter(tid);
    crash_point(tid);
    N_SENDMSG.fetch_add(1, SeqCst);
    let total = iov_total(msg);
    let nfds = count_fds(msg);
    let r = if enobufs_now(tid) {
        ENOBUFS_INJECTED.fetch_add(1, SeqCst);
        log_event(tid, EV_SENDMSG, fd, total, false, nfds, true);
        set_errno(FAULT_ERRNO.load(SeqCst));
        -1
    } else {
        let r = libc::syscall(libc::SYS_sendmsg, fd, msg, flags) as ssize_t;
        log_event(tid, EV_SENDMSG, fd, total, r >= 0, nfds, false);
        r
    };
    if gated.is_some() {
        gate_leave();
    }
    r
}

#[no_mangle]
pub unsafe extern "C" fn send(fd: c_int, buf: *const c_void, len: size_t, flags: c_int) -> ssize_t {
    let tid = gettid();
    let gated = gate_enter(tid);
    crash_point(tid);
    N_SEND.fetch_add(1, SeqCst);
    let r = if enobufs_now(tid) {
        ENOBUFS_INJECTED.fetch_add(1, SeqCst);
        log_event(tid, EV_SEND, fd, len, false, 0, true);
        set_errno(FAULT_ERRNO.load(SeqCst));
        -1
    } else {
        let r = libc::syscall(libc::SYS_sendto, fd, buf, len, flags, 0usize, 0usize) as ssize_t;
        log_event(tid, EV_SEND, fd, len, r >= 0, 0, false);
        r
    };
    if gated.is_some() {
        gate_leave();
    }
    r
}

/// Environment anomaly of this sandbox's kernel (reproduced with a 60-line C program, no
/// ipc-channel involved): `recv`/`recvmsg` on an AF_UNIX SOCK_SEQPACKET socket can return 0
/// (end-of-file) although packets that the peer sent *before* closing are still queued - the
/// emptiness check and the shutdown check of the kernel's receive path are not atomic, and a
/// receiver preempted between them sees "empty" and then "shut down".  After end-of-file no new
/// data can be queued, so data found by an immediate non-blocking peek proves the anomaly.
/// The wrapper then simply re-issues the call: the library under test (changed or not) sees
/// only what a correct kernel would have answered.
unsafe fn eof_race_data_pending(fd: c_int) -> bool {
    let mut b = 0u8;
    let r = libc::syscall(libc::SYS_recvfrom, fd, &mut b as *mut u8, 1usize, libc::MSG_PEEK | libc::MSG_DONTWAIT | libc::MSG_TRUNC, 0usize, 0usize) as ssize_t;
    if r > 0 {
        N_KERNEL_EOF_RACE.fetch_add(1, SeqCst);
        true
    } else {
        false
    }
}


/// ASan build: AddressSanitizer's own `recv`/`recvmsg` interceptors must keep checking the buffers
/// the transport hands to the kernel, so these wrappers call the interceptors (not the raw system
/// call) and only add the masking of the kernel's end-of-file race.
#[cfg(feature = "asan")]
pub mod asan_recv {
    use super::*;
    extern "C" {
        fn __interceptor_recvmsg(fd: c_int, msg: *mut libc::msghdr, flags: c_int) -> ssize_t;
        fn __interceptor_recv(fd: c_int, buf: *mut c_void, len: size_t, flags: c_int) -> ssize_t;
    }

    /// The sanitizer runtime already provides weak `recv`/`recvmsg`, so no undefined reference
    /// would ever pull this object out of the harness rlib: `main` references this anchor, the
    /// object comes along, and its strong definitions win over the weak ones.
    #[inline(never)]
    pub fn anchor() -> usize {
        (recvmsg as *const () as usize) ^ (recv as *const () as usize)
    }

    #[no_mangle]
    pub unsafe extern "C" fn recvmsg(fd: c_int, msg: *mut libc::msghdr, flags: c_int) -> ssize_t {
        let offered = iov_total(msg);
        let (ctl_len, name_len) = if msg.is_null() { (0, 0) } else { ((*msg).msg_controllen, (*msg).msg_namelen) };
        let mut r = __interceptor_recvmsg(fd, msg, flags);
        if r == 0 && offered > 0 && flags & libc::MSG_PEEK == 0 && eof_race_data_pending(fd) {
            (*msg).msg_controllen = ctl_len;
            (*msg).msg_namelen = name_len;
            (*msg).msg_flags = 0;
            r = __interceptor_recvmsg(fd, msg, flags);
        }
        r
    }

    #[no_mangle]
    pub unsafe extern "C" fn recv(fd: c_int, buf: *mut c_void, len: size_t, flags: c_int) -> ssize_t {
        let mut r = __interceptor_recv(fd, buf, len, flags);
        if r == 0 && len > 0 && flags & libc::MSG_PEEK == 0 && eof_race_data_pending(fd) {
            r = __interceptor_recv(fd, buf, len, flags);
        }
        r
    }
}

#[cfg(not(feature = "asan"))]
mod full {
    use super::*;

    #[no_mangle]
    pub unsafe extern "C" fn socketpair(
        domain: c_int,
        ty: c_int,
        proto: c_int,
        sv: *mut c_int,
    ) -> c_int {
        let tid = gettid();
        crash_point(tid);
        N_SOCKETPAIR.fetch_add(1, SeqCst);
        let r = libc::syscall(libc::SYS_socketpair, domain, ty, proto, sv) as c_int;
        if r == 0 {
            apply_real_sndbuf(*sv);
            apply_real_sndbuf(*sv.add(1));
        }
        log_event(tid, EV_SOCKETPAIR, if r == 0 { *sv } else { -1 }, 0, r == 0, 0, false);
        r
    }

    #[no_mangle]
    pub unsafe extern "C" fn socket(domain: c_int, ty: c_int, proto: c_int) -> c_int {
        let r = libc::syscall(libc::SYS_socket, domain, ty, proto) as c_int;
        if r >= 0 && domain == libc::AF_UNIX {
            apply_real_sndbuf(r);
        }
        r
    }

    #[no_mangle]
    pub unsafe extern "C" fn close(fd: c_int) -> c_int {
        let tid = gettid();
        crash_point(tid);
        if sentinel_is(fd) {
            // the library is closing a descriptor number it does not own any more
            N_SENTINEL_CLOSE.fetch_add(1, SeqCst);
            LAST_BAD_CLOSE_FD.store(fd, SeqCst);
            sentinel_set(fd, false);
        }
        let r = libc::syscall(libc::SYS_close, fd) as c_int;
        if r != 0 && *libc::__errno_location() == libc::EBADF {
            N_EBADF_CLOSE.fetch_add(1, SeqCst);
            LAST_BAD_CLOSE_FD.store(fd, SeqCst);
        }
        log_event(tid, EV_CLOSE, fd, 0, r == 0, 0, false);
        r
    }

    #[no_mangle]
    pub unsafe extern "C" fn recvmsg(fd: c_int, msg: *mut libc::msghdr, flags: c_int) -> ssize_t {
        let offered = iov_total(msg);
        // the kernel overwrites these in/out fields: keep them for a possible re-issue
        let (ctl_len, name_len) = if msg.is_null() { (0, 0) } else { ((*msg).msg_controllen, (*msg).msg_namelen) };
        let mut r = libc::syscall(libc::SYS_recvmsg, fd, msg, flags) as ssize_t;
        if r == 0 && offered > 0 && flags & libc::MSG_PEEK == 0 && eof_race_data_pending(fd) {
            (*msg).msg_controllen = ctl_len;
            (*msg).msg_namelen = name_len;
            (*msg).msg_flags = 0;
            r = libc::syscall(libc::SYS_recvmsg, fd, msg, flags) as ssize_t;
        }
        if r >= 0 {
            let f = (*msg).msg_flags;
            if f & libc::MSG_TRUNC != 0 {
                N_TRUNC.fetch_add(1, SeqCst);
            }
            if f & libc::MSG_CTRUNC != 0 {
                N_CTRUNC.fetch_add(1, SeqCst);
            }
        }
        let nfds = if r >= 0 && (*msg).msg_controllen as usize >= 16 { count_fds(msg) } else { 0 };
        log_event(gettid(), EV_RECVMSG, fd, offered, r >= 0, nfds, false);
        r
    }

    #[no_mangle]
    pub unsafe extern "C" fn recv(fd: c_int, buf: *mut c_void, len: size_t, flags: c_int) -> ssize_t {
        // MSG_TRUNC in flags makes the kernel return the real packet length, which lets us notice
        // truncation on follow-up fragments without changing what is copied.
        let mut r =
            libc::syscall(libc::SYS_recvfrom, fd, buf, len, flags | libc::MSG_TRUNC, 0usize, 0usize)
                as ssize_t;
        if r == 0 && len > 0 && flags & libc::MSG_PEEK == 0 && eof_race_data_pending(fd) {
            r = libc::syscall(libc::SYS_recvfrom, fd, buf, len, flags | libc::MSG_TRUNC, 0usize, 0usize) as ssize_t;
        }
        let r = if r > len as ssize_t {
            N_TRUNC.fetch_add(1, SeqCst);
            len as ssize_t
        } else {
            r
        };
        log_event(gettid(), EV_RECV, fd, len, r >= 0, 0, false);
        r
    }

    #[no_mangle]
    pub unsafe extern "C" fn epoll_wait(
        epfd: c_int,
        events: *mut libc::epoll_event,
        maxevents: c_int,
        timeout: c_int,
    ) -> c_int {
        let mask = EINTR_MASK.load(SeqCst);
        if mask != 0 {
            let i = EPOLL_CALLS.fetch_add(1, SeqCst);
            if i < 64 && (mask >> i) & 1 == 1 {
                EINTR_INJECTED.fetch_add(1, SeqCst);
                set_errno(libc::EINTR);
                return -1;
            }
        }
        libc::syscall(libc::SYS_epoll_wait, epfd, events, maxevents, timeout) as c_int
    }
}
