//! ipcv - property-based verification harness for sagudev/ipc-channel (library part: engine,
//! interposition, model, properties; the `ipcv` binary and the fuzz targets link it).
#![allow(clippy::type_complexity, clippy::too_many_arguments)]

pub mod engine;
pub mod fdsnap;
pub mod interpose;
pub mod node;
pub mod payload;
pub mod props;
pub mod sandbox;
pub mod world;


/// 3.8 Poisoning allocator (asan flavour): every fresh allocation and every grown tail is filled
/// with 0xCD, a byte the payload generators avoid.
#[cfg(feature = "asan")]
mod poison {
    use std::alloc::{GlobalAlloc, Layout, System};
    pub struct Poison;
    unsafe impl GlobalAlloc for Poison {
        unsafe fn alloc(&self, l: Layout) -> *mut u8 {
            let p = System.alloc(l);
            if !p.is_null() {
                std::ptr::write_bytes(p, 0xCD, l.size());
            }
            p
        }
        unsafe fn dealloc(&self, p: *mut u8, l: Layout) {
            System.dealloc(p, l)
        }
        unsafe fn realloc(&self, p: *mut u8, l: Layout, new: usize) -> *mut u8 {
            let q = System.realloc(p, l, new);
            if !q.is_null() && new > l.size() {
                std::ptr::write_bytes(q.add(l.size()), 0xCD, new - l.size());
            }
            q
        }
    }
    #[global_allocator]
    static GLOBAL: Poison = Poison;
}


/// Panics are recorded (thread, location, message) instead of printed; checks that guard a call
/// with `catch_unwind`/`join` read the record to build failure signatures.
pub static PANICS: std::sync::Mutex<Vec<String>> = std::sync::Mutex::new(Vec::new());

pub fn take_panics() -> Vec<String> {
    std::mem::take(&mut *PANICS.lock().unwrap_or_else(|e| e.into_inner()))
}

pub fn install_panic_hook() {
    let verbose = std::env::var("IPCV_VERBOSE").is_ok();
    let default = std::panic::take_hook();
    std::panic::set_hook(Box::new(move |info| {
        let loc = info.location().map(|l| format!("{}:{}", l.file(), l.line())).unwrap_or_default();
        let msg = info
            .payload()
            .downcast_ref::<&str>()
            .map(|s| s.to_string())
            .or_else(|| info.payload().downcast_ref::<String>().cloned())
            .unwrap_or_else(|| "<non-string panic>".into());
        let th = std::thread::current().name().unwrap_or("<unnamed>").to_string();
        if let Ok(mut g) = PANICS.lock() {
            if g.len() < 64 {
                g.push(format!("[{}] {} at {}", th, msg, loc));
            }
        }
        if verbose {
            default(info);
        }
    }));
}


pub mod fuzz;
