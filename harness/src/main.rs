//! ipcv - property-based verification harness for sagudev/ipc-channel.
//!   ipcv run <PROP> [--thorough] [--seed N] [--shard i/n] [--out file] [--param k=v]...
//!   ipcv replay <file>
//!   ipcv helper <name> [args...]
use ipcv::engine::{self, Ctx};
use ipcv::{install_panic_hook, interpose, props, sandbox};
use std::collections::BTreeMap;
use std::sync::atomic::Ordering::SeqCst;

fn apply_params(ctx: &Ctx) {
    // process-wide configuration must be in place before ipc-channel reads SO_SNDBUF (once)
    let lie = ctx.param_u64("sndbuf", 0);
    if lie != 0 {
        interpose::SNDBUF_LIE.store(lie as usize, SeqCst);
    }
    let real = ctx.param_u64("real_sndbuf", 0);
    if real != 0 {
        interpose::SNDBUF_REAL.store(real as usize, SeqCst);
    }
}

fn main() {
    #[cfg(feature = "asan")]
    std::hint::black_box(interpose::asan_recv::anchor());
    install_panic_hook();
    let args: Vec<String> = std::env::args().collect();
    if args.len() < 2 {
        eprintln!("usage: ipcv run|replay|helper ...");
        std::process::exit(2);
    }
    // SIGPIPE: keep Rust's default (ignored) here; C09 resets it in its sacrificial children.
    if matches!(args[1].as_str(), "run" | "replay") {
        ipcv::fdsnap::fd0::init();
    }
    match args[1].as_str() {
        "run" => {
            let mut ctx = Ctx {
                prop: args.get(2).cloned().unwrap_or_default(),
                thorough: false,
                seed: 20261003,
                shard: 0,
                nshards: 1,
                params: BTreeMap::new(),
                out: None,
                replay_dir: "/verif/replays".into(),
                strict: false,
            };
            let mut i = 3;
            while i < args.len() {
                match args[i].as_str() {
                    "--thorough" => ctx.thorough = true,
                    "--strict" => ctx.strict = true,
                    "--seed" => {
                        i += 1;
                        ctx.seed = args[i].parse().expect("seed");
                    },
                    "--shard" => {
                        i += 1;
                        let (a, b) = args[i].split_once('/').expect("i/n");
                        ctx.shard = a.parse().unwrap();
                        ctx.nshards = b.parse().unwrap();
                    },
                    "--out" => {
                        i += 1;
                        ctx.out = Some(args[i].clone());
                    },
                    "--replay-dir" => {
                        i += 1;
                        ctx.replay_dir = args[i].clone();
                    },
                    "--param" => {
                        i += 1;
                        let (k, v) = args[i].split_once('=').expect("k=v");
                        ctx.params.insert(k.to_string(), v.to_string());
                    },
                    x => panic!("unknown argument {}", x),
                }
                i += 1;
            }
            apply_params(&ctx);
            let tmp = sandbox::private_tmpdir();
            let code = props::dispatch_run(&ctx);
            sandbox::cleanup_tmpdir(&tmp);
            std::process::exit(code);
        },
        "replay" => {
            let path = args.get(2).expect("replay file");
            let text = std::fs::read_to_string(path).expect("read replay file");
            let doc: serde_json::Value = serde_json::from_str(&text).expect("parse replay file");
            let prop = doc["property"].as_str().expect("property").to_string();
            if let Some(b) = doc["build"].as_str() {
                if b != engine::BUILD && b != "any" {
                    eprintln!("replay file is for build {} but this is {}", b, engine::BUILD);
                    std::process::exit(3);
                }
            }
            let mut params = BTreeMap::new();
            if let Some(p) = doc["params"].as_object() {
                for (k, v) in p {
                    params.insert(k.clone(), v.as_str().map(|s| s.to_string()).unwrap_or_else(|| v.to_string()));
                }
            }
            let ctx = Ctx {
                prop,
                thorough: false,
                seed: doc["seed"].as_u64().unwrap_or(0),
                shard: 0,
                nshards: 1,
                params,
                out: None,
                replay_dir: "/verif/replays".into(),
                strict: true,
            };
            apply_params(&ctx);
            let tmp = sandbox::private_tmpdir();
            let code = props::dispatch_replay(&ctx, &doc, path);
            sandbox::cleanup_tmpdir(&tmp);
            std::process::exit(code);
        },
        "helper" => {
            let code = props::helper(&args[2..]);
            std::process::exit(code);
        },
        _ => {
            eprintln!("unknown sub-command");
            std::process::exit(2);
        },
    }
}
