//! ipcv - property-based verification harness for sagudev/ipc-channel.
//!   ipcv run <PROP> [--thorough] [--seed N] [--shard i/n] [--out file] [--param k=v]...
//!   ipcv replay <file>
//!   ipcv helper <name> [args...]
#![allow(clippy::type_complexity, clippy::too_many_arguments)]

pub mod engine;
pub mod fdsnap;
pub mod interpose;
pub mod node;
pub mod payload;
pub mod props;
pub mod sandbox;
pub mod world;

use engine::Ctx;

/// 3.8 Poisoning allocator (asan flavour): every fresh allocation and every grown tail is filled
/// with 0xCD, a byte the payload generators avoid.
#[cfg(feature = "asan")]
mod poison {
    use std::alloc::{GlobalAlloc, Layout, System};
    pub struct Poison;
    unsafe impl GlobalAlloc for Poison {
        unsafe fn alloc(&self, l: Layout) -> *mut u8 {
            let p = System.alloc(l);
            if !p.is_null() {
                std::ptr::write_bytes(p, 0xCD, l.size());
            }
            p
        }
        unsafe fn dealloc(&self, p: *mut u8, l: Layout) {
            System.dealloc(p, l)
        }
        unsafe fn realloc(&self, p: *mut u8, l: Layout, new: usize) -> *mut u8 {
            let q = System.realloc(p, l, new);
            if !q.is_null() && new > l.size() {
                std::ptr::write_bytes(q.add(l.size()), 0xCD, new - l.size());
            }
            q
        }
    }
    #[global_allocator]
    static GLOBAL: Poison = Poison;
}
use std::collections::BTreeMap;
use std::sync::atomic::Ordering::SeqCst;

fn apply_params(ctx: &Ctx) {
    // process-wide configuration must be in place before ipc-channel reads SO_SNDBUF (once)
    let lie = ctx.param_u64("sndbuf", 0);
    if lie != 0 {
        interpose::SNDBUF_LIE.store(lie as usize, SeqCst);
    }
    let real = ctx.param_u64("real_sndbuf", 0);
    if real != 0 {
        interpose::SNDBUF_REAL.store(real as usize, SeqCst);
    }
}

/// Panics are recorded (thread, location, message) instead of printed; checks that guard a call
/// with `catch_unwind`/`join` read the record to build failure signatures.
pub static PANICS: std::sync::Mutex<Vec<String>> = std::sync::Mutex::new(Vec::new());

pub fn take_panics() -> Vec<String> {
    std::mem::take(&mut *PANICS.lock().unwrap_or_else(|e| e.into_inner()))
}

fn install_panic_hook() {
    let verbose = std::env::var("IPCV_VERBOSE").is_ok();
    let default = std::panic::take_hook();
    std::panic::set_hook(Box::new(move |info| {
        let loc = info.location().map(|l| format!("{}:{}", l.file(), l.line())).unwrap_or_default();
        let msg = info
            .payload()
            .downcast_ref::<&str>()
            .map(|s| s.to_string())
            .or_else(|| info.payload().downcast_ref::<String>().cloned())
            .unwrap_or_else(|| "<non-string panic>".into());
        let th = std::thread::current().name().unwrap_or("<unnamed>").to_string();
        if let Ok(mut g) = PANICS.lock() {
            if g.len() < 64 {
                g.push(format!("[{}] {} at {}", th, msg, loc));
            }
        }
        if verbose {
            default(info);
        }
    }));
}

fn main() {
    install_panic_hook();
    let args: Vec<String> = std::env::args().collect();
    if args.len() < 2 {
        eprintln!("usage: ipcv run|replay|helper ...");
        std::process::exit(2);
    }
    // SIGPIPE: keep Rust's default (ignored) here; C09 resets it in its sacrificial children.
    match args[1].as_str() {
        "run" => {
            let mut ctx = Ctx {
                prop: args.get(2).cloned().unwrap_or_default(),
                thorough: false,
                seed: 20261003,
                shard: 0,
                nshards: 1,
                params: BTreeMap::new(),
                out: None,
                replay_dir: "/verif/replays".into(),
                strict: false,
            };
            let mut i = 3;
            while i < args.len() {
                match args[i].as_str() {
                    "--thorough" => ctx.thorough = true,
                    "--strict" => ctx.strict = true,
                    "--seed" => {
                        i += 1;
                        ctx.seed = args[i].parse().expect("seed");
                    },
                    "--shard" => {
                        i += 1;
                        let (a, b) = args[i].split_once('/').expect("i/n");
                        ctx.shard = a.parse().unwrap();
                        ctx.nshards = b.parse().unwrap();
                    },
                    "--out" => {
                        i += 1;
                        ctx.out = Some(args[i].clone());
                    },
                    "--replay-dir" => {
                        i += 1;
                        ctx.replay_dir = args[i].clone();
                    },
                    "--param" => {
                        i += 1;
                        let (k, v) = args[i].split_once('=').expect("k=v");
                        ctx.params.insert(k.to_string(), v.to_string());
                    },
                    x => panic!("unknown argument {}", x),
                }
                i += 1;
            }
            apply_params(&ctx);
            let tmp = sandbox::private_tmpdir();
            let code = props::dispatch_run(&ctx);
            sandbox::cleanup_tmpdir(&tmp);
            std::process::exit(code);
        },
        "replay" => {
            let path = args.get(2).expect("replay file");
            let text = std::fs::read_to_string(path).expect("read replay file");
            let doc: serde_json::Value = serde_json::from_str(&text).expect("parse replay file");
            let prop = doc["property"].as_str().expect("property").to_string();
            if let Some(b) = doc["build"].as_str() {
                if b != engine::BUILD && b != "any" {
                    eprintln!("replay file is for build {} but this is {}", b, engine::BUILD);
                    std::process::exit(3);
                }
            }
            let mut params = BTreeMap::new();
            if let Some(p) = doc["params"].as_object() {
                for (k, v) in p {
                    params.insert(k.clone(), v.as_str().map(|s| s.to_string()).unwrap_or_else(|| v.to_string()));
                }
            }
            let ctx = Ctx {
                prop,
                thorough: false,
                seed: doc["seed"].as_u64().unwrap_or(0),
                shard: 0,
                nshards: 1,
                params,
                out: None,
                replay_dir: "/verif/replays".into(),
                strict: true,
            };
            apply_params(&ctx);
            let tmp = sandbox::private_tmpdir();
            let code = props::dispatch_replay(&ctx, &doc, path);
            sandbox::cleanup_tmpdir(&tmp);
            std::process::exit(code);
        },
        "helper" => {
            let code = props::helper(&args[2..]);
            std::process::exit(code);
        },
        _ => {
            eprintln!("unknown sub-command");
            std::process::exit(2);
        },
    }
}
