//! 3.2 Value grammar.  `NP` is the generated, JSON-serialisable *plan*; `Node` is the live serde value
//! (with real endpoints / regions) that is sent through ipc-channel.  Every typed channel of the
//! harness carries `Node`.

use crate::payload;
use ipc_channel::ipc::{
    IpcBytesReceiver, IpcBytesSender, IpcReceiver, IpcSender, IpcSharedMemory, OpaqueIpcReceiver,
    OpaqueIpcSender,
};
use proptest::prelude::*;
use serde::{Deserialize, Serialize};
use std::collections::BTreeMap;
use std::fmt::Write;

#[derive(Serialize, Deserialize, Debug)]
pub enum Color {
    Red,
    Green,
    Blue,
}

#[derive(Serialize, Deserialize, Debug)]
pub enum Node {
    Unit,
    Bool(bool),
    U8(u8),
    U16(u16),
    U32(u32),
    U64(u64),
    I64(i64),
    F32(f32),
    F64(f64),
    Char(char),
    Str(String),
    Bytes(Vec<u8>),
    Opt(Option<Box<Node>>),
    List(Vec<Node>),
    Map(BTreeMap<String, Node>),
    Pair(Box<Node>, Box<Node>),
    Struct { id: u32, name: String, inner: Box<Node>, color: Color },
    Tuple3(u8, i64, String),
    NewType(Box<Node>),
    /// a tagged message (who sent it, which one, payload with checksum)
    Tagged { chan: u32, sender: u32, seq: u32, body: Vec<u8> },
    Tx(IpcSender<Node>),
    Rx(IpcReceiver<Node>),
    OTx(OpaqueIpcSender),
    ORx(OpaqueIpcReceiver),
    BTx(IpcBytesSender),
    BRx(IpcBytesReceiver),
    Shm(IpcSharedMemory),
}

/// Endpoint kinds a plan may ask for.
#[derive(Clone, Copy, Debug, PartialEq, Eq, Serialize, Deserialize)]
pub enum EpKind {
    Tx,
    Rx,
    OTx,
    ORx,
    BTx,
    BRx,
}

#[derive(Clone, Debug, Serialize, Deserialize, PartialEq)]
pub enum NP {
    Unit,
    Bool(bool),
    U8(u8),
    U16(u16),
    U32(u32),
    U64(u64),
    I64(i64),
    F32(u32),
    F64(u64),
    Char(char),
    Str(String),
    Bytes { len: u32, seed: u64 },
    Opt(Option<Box<NP>>),
    List(Vec<NP>),
    Map(Vec<(String, NP)>),
    Pair(Box<NP>, Box<NP>),
    Struct { id: u32, name: String, inner: Box<NP>, color: u8 },
    Tuple3(u8, i64, String),
    NewType(Box<NP>),
    /// endpoint leaf: `sel` selects a channel through the binder
    Ep { kind: EpKind, sel: u16 },
    /// shared-memory leaf
    Shm { len: u32, seed: u64, fill: Option<u8> },
}

/// Supplies live handles for the endpoint leaves of a plan.
pub trait Binder {
    /// Returns the live handle, or None if no such handle can be supplied (leaf becomes Unit).
    fn endpoint(&mut self, kind: EpKind, sel: u16) -> Option<Node>;
    fn region(&mut self, len: u32, seed: u64, fill: Option<u8>) -> Node {
        Node::Shm(make_region(len, seed, fill))
    }
}

pub struct NoEndpoints;
impl Binder for NoEndpoints {
    fn endpoint(&mut self, _kind: EpKind, _sel: u16) -> Option<Node> {
        None
    }
}

pub fn region_bytes(len: u32, seed: u64, fill: Option<u8>) -> Vec<u8> {
    match fill {
        Some(b) => vec![b; len as usize],
        None => payload::stream(seed, len as usize),
    }
}

pub fn make_region(len: u32, seed: u64, fill: Option<u8>) -> IpcSharedMemory {
    match fill {
        Some(b) => IpcSharedMemory::from_byte(b, len as usize),
        None => IpcSharedMemory::from_bytes(&payload::stream(seed, len as usize)),
    }
}

pub fn build(p: &NP, b: &mut dyn Binder) -> Node {
    match p {
        NP::Unit => Node::Unit,
        NP::Bool(x) => Node::Bool(*x),
        NP::U8(x) => Node::U8(*x),
        NP::U16(x) => Node::U16(*x),
        NP::U32(x) => Node::U32(*x),
        NP::U64(x) => Node::U64(*x),
        NP::I64(x) => Node::I64(*x),
        NP::F32(x) => Node::F32(f32::from_bits(*x)),
        NP::F64(x) => Node::F64(f64::from_bits(*x)),
        NP::Char(c) => Node::Char(*c),
        NP::Str(s) => Node::Str(s.clone()),
        NP::Bytes { len, seed } => Node::Bytes(payload::stream(*seed, *len as usize)),
        NP::Opt(o) => Node::Opt(o.as_ref().map(|x| Box::new(build(x, b)))),
        NP::List(v) => Node::List(v.iter().map(|x| build(x, b)).collect()),
        NP::Map(v) => {
            // BTreeMap serialises in key order; build in that order so that the order in which
            // endpoints are bound equals the order in which they are serialised
            let mut keys: Vec<&(String, NP)> = v.iter().collect();
            keys.sort_by(|a, c| a.0.cmp(&c.0));
            keys.dedup_by(|a, c| a.0 == c.0);
            let mut m = BTreeMap::new();
            for (k, x) in keys {
                m.insert(k.clone(), build(x, b));
            }
            Node::Map(m)
        },
        NP::Pair(x, y) => {
            let l = build(x, b);
            let r = build(y, b);
            Node::Pair(Box::new(l), Box::new(r))
        },
        NP::Struct { id, name, inner, color } => Node::Struct {
            id: *id,
            name: name.clone(),
            inner: Box::new(build(inner, b)),
            color: match color % 3 {
                0 => Color::Red,
                1 => Color::Green,
                _ => Color::Blue,
            },
        },
        NP::Tuple3(a, c, d) => Node::Tuple3(*a, *c, d.clone()),
        NP::NewType(x) => Node::NewType(Box::new(build(x, b))),
        NP::Ep { kind, sel } => b.endpoint(*kind, *sel).unwrap_or(Node::Unit),
        NP::Shm { len, seed, fill } => b.region(*len, *seed, *fill),
    }
}

/// Canonical rendering of a value: floats by bit pattern, byte strings by length+checksum, regions by
/// length+checksum of contents, endpoints by kind only (their identity is probed separately).
pub fn render(n: &Node, out: &mut String) {
    match n {
        Node::Unit => out.push_str("()"),
        Node::Bool(x) => write!(out, "b{}", x).unwrap(),
        Node::U8(x) => write!(out, "{}u8", x).unwrap(),
        Node::U16(x) => write!(out, "{}u16", x).unwrap(),
        Node::U32(x) => write!(out, "{}u32", x).unwrap(),
        Node::U64(x) => write!(out, "{}u64", x).unwrap(),
        Node::I64(x) => write!(out, "{}i64", x).unwrap(),
        Node::F32(x) => write!(out, "f32:{:08x}", x.to_bits()).unwrap(),
        Node::F64(x) => write!(out, "f64:{:016x}", x.to_bits()).unwrap(),
        Node::Char(c) => write!(out, "c{:x}", *c as u32).unwrap(),
        Node::Str(s) => write!(out, "{:?}", s).unwrap(),
        Node::Bytes(v) => write!(out, "bytes[{}:{:x}]", v.len(), payload::fnv64(v)).unwrap(),
        Node::Opt(None) => out.push_str("None"),
        Node::Opt(Some(x)) => {
            out.push_str("Some(");
            render(x, out);
            out.push(')');
        },
        Node::List(v) => {
            out.push('[');
            for x in v {
                render(x, out);
                out.push(',');
            }
            out.push(']');
        },
        Node::Map(m) => {
            out.push('{');
            for (k, x) in m {
                write!(out, "{:?}:", k).unwrap();
                render(x, out);
                out.push(',');
            }
            out.push('}');
        },
        Node::Pair(x, y) => {
            out.push('<');
            render(x, out);
            out.push('|');
            render(y, out);
            out.push('>');
        },
        Node::Struct { id, name, inner, color } => {
            write!(out, "S{{{},{:?},", id, name).unwrap();
            render(inner, out);
            write!(out, ",{:?}}}", color).unwrap();
        },
        Node::Tuple3(a, b, c) => write!(out, "T3({},{},{:?})", a, b, c).unwrap(),
        Node::NewType(x) => {
            out.push_str("N(");
            render(x, out);
            out.push(')');
        },
        Node::Tagged { chan, sender, seq, body } => {
            write!(out, "Tag({},{},{},[{}:{:x}])", chan, sender, seq, body.len(), payload::fnv64(body)).unwrap()
        },
        Node::Tx(_) => out.push_str("#Tx"),
        Node::Rx(_) => out.push_str("#Rx"),
        Node::OTx(_) => out.push_str("#OTx"),
        Node::ORx(_) => out.push_str("#ORx"),
        Node::BTx(_) => out.push_str("#BTx"),
        Node::BRx(_) => out.push_str("#BRx"),
        Node::Shm(r) => write!(out, "#Shm[{}:{:x}]", r.len(), payload::fnv64(r)).unwrap(),
    }
}

pub fn rendered(n: &Node) -> String {
    let mut s = String::new();
    render(n, &mut s);
    s
}

/// A live endpoint extracted from a value.
pub enum Handle {
    Tx(IpcSender<Node>),
    Rx(IpcReceiver<Node>),
    BTx(IpcBytesSender),
    BRx(IpcBytesReceiver),
    Shm(IpcSharedMemory),
}

/// Consume a value and return its endpoints/regions in traversal (= serialisation) order.
/// Opaque endpoints are converted to their typed form.
pub fn take_handles(n: Node, out: &mut Vec<Handle>) {
    match n {
        Node::Opt(Some(x)) => take_handles(*x, out),
        Node::List(v) => v.into_iter().for_each(|x| take_handles(x, out)),
        Node::Map(m) => m.into_values().for_each(|x| take_handles(x, out)),
        Node::Pair(x, y) => {
            take_handles(*x, out);
            take_handles(*y, out);
        },
        Node::Struct { inner, .. } => take_handles(*inner, out),
        Node::NewType(x) => take_handles(*x, out),
        Node::Tx(t) => out.push(Handle::Tx(t)),
        Node::Rx(r) => out.push(Handle::Rx(r)),
        Node::OTx(t) => out.push(Handle::Tx(t.to())),
        Node::ORx(r) => out.push(Handle::Rx(r.to())),
        Node::BTx(t) => out.push(Handle::BTx(t)),
        Node::BRx(r) => out.push(Handle::BRx(r)),
        Node::Shm(r) => out.push(Handle::Shm(r)),
        _ => {},
    }
}

pub fn depth(p: &NP) -> u32 {
    match p {
        NP::Opt(Some(x)) | NP::NewType(x) => 1 + depth(x),
        NP::Struct { inner, .. } => 1 + depth(inner),
        NP::List(v) => 1 + v.iter().map(depth).max().unwrap_or(0),
        NP::Map(v) => 1 + v.iter().map(|(_, x)| depth(x)).max().unwrap_or(0),
        NP::Pair(x, y) => 1 + depth(x).max(depth(y)),
        _ => 0,
    }
}

pub fn count<F: Fn(&NP) -> bool + Copy>(p: &NP, f: F) -> u32 {
    let own = f(p) as u32;
    own + match p {
        NP::Opt(Some(x)) | NP::NewType(x) => count(x, f),
        NP::Struct { inner, .. } => count(inner, f),
        NP::List(v) => v.iter().map(|x| count(x, f)).sum(),
        NP::Map(v) => {
            // duplicates of a key are dropped by build(): count only the first occurrence per key
            let mut seen = std::collections::BTreeSet::new();
            let mut keys: Vec<&(String, NP)> = v.iter().collect();
            keys.sort_by(|a, c| a.0.cmp(&c.0));
            keys.iter().filter(|(k, _)| seen.insert(k.clone())).map(|(_, x)| count(x, f)).sum()
        },
        NP::Pair(x, y) => count(x, f) + count(y, f),
        _ => 0,
    }
}

pub fn is_rich(p: &NP) -> bool {
    count(p, |x| matches!(x, NP::Map(_) | NP::Struct { .. } | NP::F32(_) | NP::F64(_))) > 0
}

fn special_f32() -> impl Strategy<Value = u32> {
    prop_oneof![
        any::<u32>(),
        Just(0x7fc0_0001u32), // NaN with payload
        Just(0xffc0_0000u32), // -NaN
        Just(0x8000_0000u32), // -0.0
        Just(0x0000_0001u32), // subnormal
        Just(0x7f80_0000u32), // inf
    ]
}
fn special_f64() -> impl Strategy<Value = u64> {
    prop_oneof![
        any::<u64>(),
        Just(0x7ff8_0000_0000_0001u64),
        Just(0xfff0_0000_0000_0000u64),
        Just(0x8000_0000_0000_0000u64),
        Just(0x0000_0000_0000_0001u64),
    ]
}

pub fn data_leaf() -> BoxedStrategy<NP> {
    prop_oneof![
        Just(NP::Unit),
        any::<bool>().prop_map(NP::Bool),
        any::<u8>().prop_map(NP::U8),
        any::<u16>().prop_map(NP::U16),
        any::<u32>().prop_map(NP::U32),
        any::<u64>().prop_map(NP::U64),
        any::<i64>().prop_map(NP::I64),
        special_f32().prop_map(NP::F32),
        special_f64().prop_map(NP::F64),
        any::<char>().prop_map(NP::Char),
        ".{0,24}".prop_map(NP::Str),
        (0u32..600, any::<u64>()).prop_map(|(len, seed)| NP::Bytes { len, seed }),
        (any::<u8>(), any::<i64>(), "[a-z]{0,8}").prop_map(|(a, b, c)| NP::Tuple3(a, b, c)),
    ]
    .boxed()
}

/// Recursive strategy over a leaf strategy.
pub fn tree(leaf: BoxedStrategy<NP>, depth: u32, size: u32) -> BoxedStrategy<NP> {
    leaf.prop_recursive(depth, size, 8, |inner| {
        prop_oneof![
            proptest::option::of(inner.clone()).prop_map(|o| NP::Opt(o.map(Box::new))),
            proptest::collection::vec(inner.clone(), 0..8).prop_map(NP::List),
            proptest::collection::vec(("[a-f]{0,3}", inner.clone()), 0..6).prop_map(NP::Map),
            (inner.clone(), inner.clone()).prop_map(|(a, b)| NP::Pair(Box::new(a), Box::new(b))),
            (any::<u32>(), "[A-Za-z ]{0,12}", inner.clone(), 0u8..3)
                .prop_map(|(id, name, x, color)| NP::Struct { id, name, inner: Box::new(x), color }),
            inner.clone().prop_map(|x| NP::NewType(Box::new(x))),
        ]
    })
    .boxed()
}

pub fn data_tree(depth: u32, size: u32) -> BoxedStrategy<NP> {
    tree(data_leaf(), depth, size)
}
