//! 3.1 Tagged payloads: header (channel, sender, sequence, total length, FNV-64 of body) + body from a
//! seeded xorshift stream.  From any received buffer the oracle recovers who sent it, which message
//! it is, whether it is whole and whether bytes of different messages were mixed.

pub const HEADER: usize = 32;

#[derive(Clone, Copy, Debug, PartialEq, Eq, serde::Serialize, serde::Deserialize)]
pub struct Tag {
    pub chan: u32,
    pub sender: u32,
    pub seq: u32,
    pub len: u64,
    pub seed: u64,
}

pub fn fnv64(bytes: &[u8]) -> u64 {
    let mut h = 0xcbf29ce484222325u64;
    for b in bytes {
        h ^= *b as u64;
        h = h.wrapping_mul(0x100000001b3);
    }
    h
}

/// Fill `out` with the xorshift stream of `seed`.  Under the asan build the allocator poison byte
/// 0xCD is avoided so that an unwritten byte can never pass for data.
pub fn fill(seed: u64, out: &mut [u8]) {
    let mut x = seed | 1;
    let mut i = 0;
    while i < out.len() {
        x ^= x << 13;
        x ^= x >> 7;
        x ^= x << 17;
        let bytes = x.to_le_bytes();
        for b in bytes {
            if i >= out.len() {
                break;
            }
            out[i] = if b == 0xCD { 0xCE } else { b };
            i += 1;
        }
    }
}

pub fn stream(seed: u64, len: usize) -> Vec<u8> {
    let mut v = vec![0u8; len];
    fill(seed, &mut v);
    v
}

/// Build a tagged payload of exactly `len` bytes.  Payloads shorter than the header are a bare
/// stream (they can only be compared for equality).
pub fn make(chan: u32, sender: u32, seq: u32, len: usize, seed: u64) -> Vec<u8> {
    if len < HEADER {
        return stream(seed ^ ((chan as u64) << 40) ^ ((sender as u64) << 20) ^ seq as u64, len);
    }
    let mut v = vec![0u8; len];
    v[0..4].copy_from_slice(&chan.to_le_bytes());
    v[4..8].copy_from_slice(&sender.to_le_bytes());
    v[8..12].copy_from_slice(&seq.to_le_bytes());
    v[12..16].copy_from_slice(&0x1bc0_ffeeu32.to_le_bytes());
    v[16..24].copy_from_slice(&(len as u64).to_le_bytes());
    fill(seed, &mut v[HEADER..]);
    let h = fnv64(&v[HEADER..]);
    v[24..32].copy_from_slice(&h.to_le_bytes());
    v
}

#[derive(Debug, Clone)]
pub struct Parsed {
    pub chan: u32,
    pub sender: u32,
    pub seq: u32,
    pub len: u64,
}

/// Verify a received buffer: magic, declared length == actual length, checksum of the body.
pub fn parse(buf: &[u8]) -> Result<Parsed, String> {
    if buf.len() < HEADER {
        return Err(format!("buffer of {} bytes is shorter than a header", buf.len()));
    }
    let chan = u32::from_le_bytes(buf[0..4].try_into().unwrap());
    let sender = u32::from_le_bytes(buf[4..8].try_into().unwrap());
    let seq = u32::from_le_bytes(buf[8..12].try_into().unwrap());
    let magic = u32::from_le_bytes(buf[12..16].try_into().unwrap());
    let len = u64::from_le_bytes(buf[16..24].try_into().unwrap());
    let sum = u64::from_le_bytes(buf[24..32].try_into().unwrap());
    if magic != 0x1bc0_ffee {
        return Err(format!("bad magic {:#x}", magic));
    }
    if len as usize != buf.len() {
        return Err(format!("declared length {} but buffer has {} bytes (chan {} sender {} seq {})", len, buf.len(), chan, sender, seq));
    }
    let h = fnv64(&buf[HEADER..]);
    if h != sum {
        return Err(format!("checksum mismatch (chan {} sender {} seq {} len {}): bytes of the body were altered or mixed", chan, sender, seq, len));
    }
    Ok(Parsed { chan, sender, seq, len })
}

/// First index where two buffers differ (for failure reports).
pub fn first_diff(a: &[u8], b: &[u8]) -> Option<usize> {
    if a.len() != b.len() {
        return Some(a.len().min(b.len()).min(a.iter().zip(b).position(|(x, y)| x != y).unwrap_or(usize::MAX)));
    }
    a.iter().zip(b).position(|(x, y)| x != y)
}
