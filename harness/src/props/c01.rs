//! C01 - values and byte payloads arrive exactly as sent, at every size.
//!
//! Oracle: round trip (value == value by canonical rendering with floats by bits; bytes equal),
//! followed by an intact follow-on message and a clean disconnect (catches over/under-consumption).
//! Boundaries are placed from the *observed* packet capacities: F1 = get_max_fragment_size()
//! (public) and F = length of the first follow-up packet seen at the libc boundary when a long
//! message is sent (measured once per process), so the check does not hard-code any constant of the
//! transport.

use crate::engine::{Ctx, Failure, Outcome, Prop};
use crate::interpose as ip;
use crate::node::{self, NoEndpoints, Node, NP};
use crate::payload;
use crate::sandbox;
use crate::{ensure, fail};
use ipc_channel::ipc::{self, IpcError, TryRecvError};
use ipc_channel::platform::OsIpcSender;
use proptest::prelude::*;
use serde::{Deserialize, Serialize};
use std::collections::HashMap;
use std::sync::atomic::{AtomicUsize, Ordering::SeqCst};
use std::sync::Arc;
use std::time::Duration;

pub struct C01;

#[derive(Clone, Debug, Serialize, Deserialize)]
pub enum Len {
    Exact(u32),
    /// B_k + delta where B_k = F1 + (k-1)*F
    Boundary { k: u8, delta: i8 },
}

#[derive(Clone, Debug, Serialize, Deserialize)]
pub enum Case {
    Bytes {
        len: Len,
        seed: u64,
        mode: u8,
        follow: u8,
        /// bit i set: the i-th transmission attempt of the send is interrupted (EINTR, nothing
        /// transmitted); whatever send then reports, an accepted payload must arrive as sent
        #[serde(default)]
        eintr_mask: u16,
    },
    Typed {
        plan: NP,
        pad: Option<Len>,
        mode: u8,
        /// a send whose serialisation fails after emitting this many bytes precedes the real
        /// send on the same thread (None = no failed send before)
        #[serde(default)]
        after_failed: Option<u16>,
    },
    Static { kind: u8, seed: u64, n: u16, mode: u8 },
}

static F1: AtomicUsize = AtomicUsize::new(0);
static F: AtomicUsize = AtomicUsize::new(0);

pub fn capacities() -> (usize, usize) {
    (F1.load(SeqCst), F.load(SeqCst))
}

/// Like `measure_capacities`, but the in-process build (which has no packets) places its length
/// classes where the OS build with the same `sndbuf` parameter has its boundaries, so that the
/// same program means the same thing on every build.
pub fn measure_capacities_for(ctx: &Ctx) {
    if cfg!(feature = "inproc") {
        let sb = match ctx.param_u64("sndbuf", 0) {
            0 => 212992,
            n => n as usize,
        };
        F1.store((sb - 40) & !7, SeqCst);
        F.store(sb - 32, SeqCst);
        return;
    }
    measure_capacities();
}

/// Measure the packet capacities (see module doc).
pub fn measure_capacities() {
    if F1.load(SeqCst) != 0 {
        return;
    }
    if cfg!(feature = "inproc") {
        // no packets on this transport: fixed constants only place the length classes
        F1.store(4056, SeqCst);
        F.store(4064, SeqCst);
        return;
    }
    let f1 = OsIpcSender::get_max_fragment_size();
    let (tx, rx) = ipc::bytes_channel().unwrap();
    let data = vec![7u8; f1 * 3 + 100];
    let h = std::thread::spawn(move || {
        ip::log_start(ip::gettid());
        tx.send(&data).unwrap();
        ip::log_stop()
    });
    let got = rx.recv().unwrap();
    assert_eq!(got.len(), f1 * 3 + 100);
    let ev = h.join().unwrap();
    let follow: Vec<u64> = ev.iter().filter(|e| e.kind == ip::EV_SEND && e.ok).map(|e| e.len).collect();
    let f = follow.first().copied().unwrap_or(f1 as u64) as usize;
    F1.store(f1, SeqCst);
    F.store(f.max(1), SeqCst);
}

pub fn resolve(len: &Len) -> usize {
    let (f1, f) = capacities();
    match len {
        Len::Exact(n) => *n as usize,
        Len::Boundary { k, delta } => {
            let b = f1 as i64 + (*k as i64 - 1) * f as i64 + *delta as i64;
            b.max(0) as usize
        },
    }
}

pub fn near_boundary(n: usize) -> Option<u8> {
    let (f1, f) = capacities();
    for k in 1..=4u8 {
        let b = f1 as i64 + (k as i64 - 1) * f as i64;
        if (n as i64 - b).abs() <= 16 {
            return Some(k);
        }
    }
    None
}

fn len_strategy(max_exp: u32) -> BoxedStrategy<Len> {
    prop_oneof![
        2 => prop_oneof![Just(0u32), Just(1), Just(2), Just(7), Just(8), Just(9), 0u32..64].prop_map(Len::Exact),
        4 => (1u8..=4, -16i8..=16).prop_map(|(k, delta)| Len::Boundary { k, delta }),
        // log-uniform
        4 => (0u32..=max_exp, any::<u32>()).prop_map(|(e, m)| {
            let base = 1u64 << e;
            Len::Exact((base + ((m as u64 * base) >> 32)) as u32)
        }),
    ]
    .boxed()
}

// ---- static types ------------------------------------------------------------------------------

#[derive(Serialize, Deserialize, Debug, PartialEq, Clone)]
enum Shape {
    Circle { r: u32 },
    Rect(i16, i16),
    Empty,
    Label(String, Option<Box<Shape>>),
}

#[derive(Serialize, Deserialize, Debug, PartialEq, Clone)]
struct Record {
    id: u64,
    name: String,
    tags: Vec<String>,
    shape: Shape,
    table: HashMap<u32, String>,
    shared: (Arc<String>, Arc<String>),
    nested: Option<Box<Record>>,
    signed: (i8, i16, i32, i64, i128),
    unsigned: (u8, u16, u32, u64, u128),
    unit: (),
    arr: [u16; 5],
}

struct Xs(u64);
impl Xs {
    fn next(&mut self) -> u64 {
        self.0 ^= self.0 << 13;
        self.0 ^= self.0 >> 7;
        self.0 ^= self.0 << 17;
        self.0
    }
    fn string(&mut self, max: usize) -> String {
        let n = (self.next() as usize) % (max + 1);
        (0..n).map(|_| char::from_u32(0x20 + (self.next() % 0x2fe0) as u32).unwrap_or('x')).collect()
    }
}

fn gen_shape(x: &mut Xs, depth: u32) -> Shape {
    match x.next() % 4 {
        0 => Shape::Circle { r: x.next() as u32 },
        1 => Shape::Rect(x.next() as i16, x.next() as i16),
        2 => Shape::Empty,
        _ => Shape::Label(x.string(10), if depth > 0 { Some(Box::new(gen_shape(x, depth - 1))) } else { None }),
    }
}

fn gen_record(x: &mut Xs, n: u16, depth: u32) -> Record {
    let shared = Arc::new(x.string(12));
    Record {
        id: x.next(),
        name: x.string(n as usize),
        tags: (0..(x.next() % 5)).map(|_| x.string(8)).collect(),
        shape: gen_shape(x, 3),
        table: (0..(n as u64 % 17)).map(|_| (x.next() as u32, x.string(6))).collect(),
        shared: (shared.clone(), shared),
        nested: if depth > 0 { Some(Box::new(gen_record(x, n / 2, depth - 1))) } else { None },
        signed: (x.next() as i8, x.next() as i16, x.next() as i32, x.next() as i64, ((x.next() as u128) << 64 | x.next() as u128) as i128),
        unsigned: (x.next() as u8, x.next() as u16, x.next() as u32, x.next(), (x.next() as u128) << 64 | x.next() as u128),
        unit: (),
        arr: [x.next() as u16, 0, u16::MAX, x.next() as u16, 1],
    }
}

// ---- receive helpers ---------------------------------------------------------------------------

fn recv_typed<T>(rx: &ipc::IpcReceiver<T>, mode: u8) -> Result<T, String>
where
    T: for<'de> Deserialize<'de> + Serialize,
{
    match mode % 3 {
        0 => rx.recv().map_err(|e| format!("recv: {:?}", e)),
        1 => loop {
            match rx.try_recv() {
                Ok(v) => return Ok(v),
                Err(TryRecvError::Empty) => std::thread::yield_now(),
                Err(TryRecvError::IpcError(e)) => return Err(format!("try_recv: {:?}", e)),
            }
        },
        _ => loop {
            match rx.try_recv_timeout(Duration::from_millis(50)) {
                Ok(v) => return Ok(v),
                Err(TryRecvError::Empty) => {},
                Err(TryRecvError::IpcError(e)) => return Err(format!("try_recv_timeout: {:?}", e)),
            }
        },
    }
}

fn recv_bytes(rx: &ipc::IpcBytesReceiver, mode: u8) -> Result<Vec<u8>, String> {
    match mode % 2 {
        0 => rx.recv().map_err(|e| format!("recv: {:?}", e)),
        _ => loop {
            match rx.try_recv() {
                Ok(v) => return Ok(v),
                Err(TryRecvError::Empty) => std::thread::yield_now(),
                Err(TryRecvError::IpcError(e)) => return Err(format!("try_recv: {:?}", e)),
            }
        },
    }
}

fn packets(ev: &[ip::Event]) -> u64 {
    ev.iter().filter(|e| (e.kind == ip::EV_SEND || e.kind == ip::EV_SENDMSG) && e.ok).count() as u64
}

fn classify_len(kind: &str, len: usize, pk: u64) -> (bool, String) {
    if let Some(k) = near_boundary(len) {
        (true, format!("{}/boundary-{}", kind, k))
    } else if pk >= 2 || (cfg!(feature = "inproc") && len > capacities().0) {
        (true, format!("{}/multi-packet", kind))
    } else {
        (false, format!("{}/single-packet", kind))
    }
}

impl Prop for C01 {
    type Case = Case;
    const ID: &'static str = "C01";

    fn setup(_ctx: &Ctx) {
        measure_capacities();
    }

    fn cases(ctx: &Ctx) -> u32 {
        ctx.param_u64("cases", ctx.pick(400, 4000) as u64) as u32
    }

    fn strategy(ctx: &Ctx) -> BoxedStrategy<Case> {
        let max_exp = ctx.param_u64("max_exp", if ctx.thorough { 22 } else { 19 }) as u32;
        let depth = if ctx.thorough { 6 } else { 5 };
        prop_oneof![
            5 => (len_strategy(max_exp), any::<u64>(), 0u8..2, any::<u8>())
                .prop_map(|(len, seed, mode, follow)| Case::Bytes { len, seed, mode, follow, eintr_mask: 0 }),
            1 => (len_strategy(max_exp.min(18)), any::<u64>(), 0u8..2, any::<u8>(), prop_oneof![1u16..64, any::<u16>()])
                .prop_map(|(len, seed, mode, follow, eintr_mask)| Case::Bytes { len, seed, mode, follow, eintr_mask }),
            4 => (node::data_tree(depth, 96), proptest::option::weighted(0.3, len_strategy(max_exp.min(19))), 0u8..3)
                .prop_map(|(plan, pad, mode)| Case::Typed { plan, pad, mode, after_failed: None }),
            1 => (node::data_tree(depth, 48), proptest::option::weighted(0.3, len_strategy(max_exp.min(16))), 0u8..3, 0u16..3000)
                .prop_map(|(plan, pad, mode, n)| Case::Typed { plan, pad, mode, after_failed: Some(n) }),
            1 => (0u8..3, any::<u64>(), 0u16..400, 0u8..3)
                .prop_map(|(kind, seed, n, mode)| Case::Static { kind, seed, n, mode }),
        ]
        .boxed()
    }

    fn enumerated(ctx: &Ctx) -> Vec<Case> {
        // every length within +/-16 of each boundary B_k, k = 1..4 (132 lengths), on the bytes channel;
        // a sparser sweep on the typed channel; plus the tiny lengths
        let mut v = vec![];
        for k in 1..=4u8 {
            for delta in -16i8..=16 {
                v.push(Case::Bytes { len: Len::Boundary { k, delta }, seed: 0x5eed ^ ((k as u64) << 8) ^ (delta as u8 as u64), mode: (delta as u8) & 1, follow: delta as u8, eintr_mask: 0 });
                if delta % 4 == 0 || ctx.thorough {
                    v.push(Case::Typed { plan: NP::U8(k), pad: Some(Len::Boundary { k, delta }), mode: (delta as u8) % 3, after_failed: if delta == 0 { Some(100 * k as u16) } else { None } });
                }
            }
        }
        for n in 0..=33u32 {
            v.push(Case::Bytes { len: Len::Exact(n), seed: n as u64 + 1, mode: (n & 1) as u8, follow: n as u8, eintr_mask: 0 });
        }
        if ctx.thorough && ctx.param("big") == Some("1") {
            for (i, n) in [16u32 << 20, (32 << 20) + 1, 64 << 20].iter().enumerate() {
                v.push(Case::Bytes { len: Len::Exact(*n), seed: 77 + i as u64, mode: 0, follow: 3, eintr_mask: 0 });
            }
        }
        v
    }

    fn exec(_ctx: &Ctx, case: &Case) -> Result<Outcome, Failure> {
        match case {
            Case::Bytes { len, seed, mode, follow, eintr_mask } => {
                let n = resolve(len);
                let data = payload::make(1, 0, 0, n, *seed);
                let fol = payload::make(1, 0, 1, payload::HEADER + *follow as usize, seed ^ 0xabcdef);
                let (tx, rx) = ipc::bytes_channel().map_err(|e| Failure::inconclusive(format!("bytes_channel: {}", e)))?;
                let (d2, f2) = (data.clone(), fol.clone());
                let eintr_mask = *eintr_mask;
                let sender = std::thread::spawn(move || {
                    ip::log_start(ip::gettid());
                    if eintr_mask != 0 {
                        ip::arm_errno(ip::gettid(), eintr_mask as u64, libc::EINTR);
                    }
                    let r1 = tx.send(&d2);
                    ip::disarm();
                    let ev = ip::log_stop();
                    let r2 = tx.send(&f2);
                    (r1.map_err(|e| e.to_string()), r2.map_err(|e| e.to_string()), ev)
                });
                let mode = *mode;
                let got = sandbox::watched(move || {
                    let a = recv_bytes(&rx, mode);
                    let b = recv_bytes(&rx, mode);
                    // sender handle is dropped when its thread ends: then the channel must report closure
                    let c = rx.recv();
                    (a, b, c)
                });
                let (a, b, c) = match got {
                    Ok(x) => x,
                    Err(h) => return Err(sandbox::hang_failure("bytes:receive-hangs", &format!("receiving a {}-byte payload", n), h)),
                };
                let (r1, r2, ev) = sender.join().map_err(|_| Failure::new("bytes:sender-panicked", format!("send of {} bytes panicked", n)))?;
                ensure!(r2.is_ok(), "bytes:send-rejected", "follow-on send failed: {:?}", r2);
                if eintr_mask != 0 && r1.is_err() {
                    // an interrupted send may report the interruption; then nothing of it is delivered
                    let a = a.map_err(|e| Failure::new("bytes:follow-on-recv-error", format!("after an interrupted send of {} bytes: {}", n, e)))?;
                    ensure!(a == fol, "bytes:interrupted-send-delivered-something", "send of {} bytes reported {:?}, yet the receiver got a {}-byte message before the follow-on", n, r1, a.len());
                    return Ok(Outcome::new(true, "bytes/interrupted-send-reported"));
                }
                ensure!(r1.is_ok(), "bytes:send-rejected", "send of {} bytes failed: {:?}", n, r1);
                let a = a.map_err(|e| Failure::new("bytes:recv-error", format!("len {} (send returned Ok{}): {}", n, if eintr_mask != 0 { " after interrupted attempts" } else { "" }, e)))?;
                ensure!(a.len() == data.len(), "bytes:length-differs", "sent {} bytes, received {}", data.len(), a.len());
                if a != data {
                    fail!("bytes:content-differs", "len {}: first difference at byte {:?}", n, payload::first_diff(&a, &data));
                }
                let b = b.map_err(|e| Failure::new("bytes:follow-on-recv-error", format!("after len {}: {}", n, e)))?;
                ensure!(b == fol, "bytes:follow-on-differs", "after a {}-byte message the next message arrived altered ({} vs {} bytes)", n, b.len(), fol.len());
                ensure!(matches!(c, Err(IpcError::Disconnected)), "bytes:extra-delivery", "after both messages the channel yielded {:?} instead of Disconnected", c.map(|v| v.len()));
                let pk = packets(&ev);
                let (nt, class) = classify_len("bytes", n, pk);
                Ok(Outcome::new(nt, class).with("packets", pk))
            },
            Case::Typed { plan, pad, mode, after_failed } => {
                let mut value = node::build(plan, &mut NoEndpoints);
                let mut target = None;
                if let Some(p) = pad {
                    // pad so that the serialised size hits the requested length exactly
                    let want = resolve(p);
                    let probe = Node::Pair(Box::new(Node::Bytes(vec![])), Box::new(value));
                    let base = bincode::serialized_size(&probe).unwrap() as usize;
                    let Node::Pair(_, inner) = probe else { unreachable!() };
                    let padlen = want.saturating_sub(base);
                    value = Node::Pair(Box::new(Node::Bytes(payload::stream(0x9ad ^ want as u64, padlen))), inner);
                    target = Some(bincode::serialized_size(&value).unwrap() as usize);
                }
                let want = node::rendered(&value);
                let size = target.unwrap_or_else(|| bincode::serialized_size(&value).unwrap() as usize);
                let (tx, rx) = ipc::channel::<Node>().map_err(|e| Failure::inconclusive(format!("channel: {}", e)))?;
                let after_failed = *after_failed;
                let sender = std::thread::spawn(move || {
                    if let Some(n) = after_failed {
                        // a rejected send on this thread must leave no trace in the next message
                        let (ftx, _frx) = ipc::channel::<Node>().unwrap();
                        let ftx: ipc::IpcSender<FailsAfter> = ftx.to_opaque().to();
                        let r = ftx.send(FailsAfter(n as usize));
                        assert!(r.is_err());
                    }
                    ip::log_start(ip::gettid());
                    let r1 = tx.send(value);
                    let ev = ip::log_stop();
                    let r2 = tx.send(Node::U32(0xf0110));
                    (r1.map_err(|e| e.to_string()), r2.map_err(|e| e.to_string()), ev)
                });
                let mode = *mode;
                let got = sandbox::watched(move || {
                    let a = recv_typed(&rx, mode);
                    let b = recv_typed(&rx, mode);
                    let c = rx.recv();
                    (a, b, c)
                });
                let (a, b, c) = match got {
                    Ok(x) => x,
                    Err(h) => return Err(sandbox::hang_failure("typed:receive-hangs", &format!("receiving a value of {} serialised bytes", size), h)),
                };
                let (r1, r2, ev) = sender.join().map_err(|_| Failure::new("typed:sender-panicked", "send panicked"))?;
                ensure!(r1.is_ok(), "typed:send-rejected", "send of a data-only value ({} bytes) failed: {:?}", size, r1);
                ensure!(r2.is_ok(), "typed:send-rejected", "follow-on send failed: {:?}", r2);
                let a = a.map_err(|e| Failure::new("typed:recv-error", format!("size {}: {}", size, e)))?;
                let got = node::rendered(&a);
                if got != want {
                    let pos = got.bytes().zip(want.bytes()).position(|(x, y)| x != y).unwrap_or(got.len().min(want.len()));
                    fail!("typed:value-differs", "serialised size {}: rendering differs at {}: sent …{}… received …{}…", size, pos,
                        &want[pos.saturating_sub(20)..(pos + 20).min(want.len())].escape_debug(), &got[pos.saturating_sub(20)..(pos + 20).min(got.len())].escape_debug());
                }
                let b = b.map_err(|e| Failure::new("typed:follow-on-recv-error", e))?;
                ensure!(matches!(b, Node::U32(0xf0110)), "typed:follow-on-differs", "follow-on message arrived as {}", node::rendered(&b));
                ensure!(matches!(c, Err(IpcError::Disconnected)), "typed:extra-delivery", "expected Disconnected after both messages, got {:?}", c.map(|v| node::rendered(&v)));
                let pk = packets(&ev);
                let rich = node::depth(plan) >= 3 && node::is_rich(plan);
                let (nt_len, class_len) = classify_len("typed", size, pk);
                if after_failed.is_some() {
                    Ok(Outcome::new(true, format!("{}+after-failed-send", class_len)).with("packets", pk))
                } else if nt_len {
                    Ok(Outcome::new(true, class_len).with("packets", pk))
                } else if rich {
                    Ok(Outcome::new(true, "typed/deep-rich").with("packets", pk))
                } else {
                    Ok(Outcome::new(false, "typed/plain").with("packets", pk))
                }
            },
            Case::Static { kind, seed, n, mode } => {
                let mut x = Xs(*seed | 1);
                match kind % 3 {
                    0 => {
                        let v = gen_record(&mut x, *n, 2);
                        roundtrip_static(v, *mode, |a, b| a == b && Arc::ptr_eq(&b.shared.0, &b.shared.0))?;
                    },
                    1 => {
                        let v: Vec<Option<(u16, String)>> = (0..*n).map(|i| if i % 3 == 0 { None } else { Some((x.next() as u16, x.string(9))) }).collect();
                        roundtrip_static(v, *mode, |a, b| a == b)?;
                    },
                    _ => {
                        let v: (String, u32, Vec<Shape>, std::collections::BTreeMap<String, (u8, f64)>) = (
                            x.string(*n as usize),
                            x.next() as u32,
                            (0..(*n % 23)).map(|_| gen_shape(&mut x, 4)).collect(),
                            (0..(*n % 11)).map(|_| (x.string(5), (x.next() as u8, (x.next() % 1000) as f64 / 7.0))).collect(),
                        );
                        roundtrip_static(v, *mode, |a, b| a == b)?;
                    },
                }
                Ok(Outcome::new(*n >= 4, "static-types"))
            },
        }
    }
}

/// Emits `n` bytes and then reports a serialisation error.
struct FailsAfter(usize);
impl Serialize for FailsAfter {
    fn serialize<S: serde::Serializer>(&self, s: S) -> Result<S::Ok, S::Error> {
        use serde::ser::SerializeTuple;
        let mut t = s.serialize_tuple(self.0 + 1)?;
        for i in 0..self.0 {
            t.serialize_element(&(i as u8))?;
        }
        Err(serde::ser::Error::custom("scripted failure"))
    }
}
impl<'de> Deserialize<'de> for FailsAfter {
    fn deserialize<D: serde::Deserializer<'de>>(_d: D) -> Result<Self, D::Error> {
        Err(serde::de::Error::custom("never decoded"))
    }
}

fn roundtrip_static<T>(v: T, mode: u8, eq: impl Fn(&T, &T) -> bool) -> Result<(), Failure>
where
    T: for<'de> Deserialize<'de> + Serialize + Clone + Send + std::fmt::Debug + 'static,
{
    let (tx, rx) = ipc::channel::<T>().map_err(|e| Failure::inconclusive(format!("channel: {}", e)))?;
    let v2 = v.clone();
    // In the ASan build the receive side is not interposed, so the kernel's end-of-file race
    // (DESIGN.md 9.4) is not masked there: the sender keeps its handle until the value has arrived.
    let (release_tx, release_rx) = std::sync::mpsc::channel::<()>();
    let sender = std::thread::spawn(move || {
        let r = tx.send(v2);
        if cfg!(feature = "asan") {
            let _ = release_rx.recv();
        }
        r.map_err(|e| e.to_string())
    });
    let got = sandbox::watched(move || {
        let a = recv_typed(&rx, mode);
        drop(release_tx);
        let c = rx.recv().map(|_| ());
        (a, c)
    });
    let (a, c) = match got {
        Ok(x) => x,
        Err(h) => return Err(sandbox::hang_failure("static:receive-hangs", "receiving a static-typed value", h)),
    };
    let r = sender.join().map_err(|_| Failure::new("static:sender-panicked", "send panicked"))?;
    ensure!(r.is_ok(), "static:send-rejected", "send failed: {:?}", r);
    let a = a.map_err(|e| Failure::new("static:recv-error", e))?;
    ensure!(eq(&v, &a), "static:value-differs", "sent {:?} received {:?}", v, a);
    ensure!(matches!(c, Err(IpcError::Disconnected)), "static:extra-delivery", "expected Disconnected, got {:?}", c);
    Ok(())
}
