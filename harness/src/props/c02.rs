//! C02 - messages are delivered exactly once, whole, and in the order they were sent.
//!
//! Two scheduling regimes.
//! (1) Gated: the order of *all packet transmissions* of the sender threads is a generated
//! multiset permutation enforced at the interposed `sendmsg`/`send` (schedule gate); with 4 KiB
//! packets (send-buffer lie) no real call blocks, so the packet order on every socket is exactly the
//! generated one.  Small configurations are enumerated completely.
//! (2) Free-running sender threads / forked sender processes with generated spin jitter.
//! Oracle over the history (logical-clock stamps around every send): (i) delivered multiset =
//! multiset of sends that returned Ok, each once; (ii) every body passes length + checksum (no
//! mixing, no truncation); (iii) return(a) < start(b) => a delivered before b (any handles);
//! (iv) the receiver finishes once every sender handle is gone.

use crate::engine::{Ctx, Failure, Outcome, Prop};
use crate::interpose::{self as ip, stamp};
use crate::node::Node;
use crate::payload;
use crate::props::c01;
use crate::sandbox::{self, ChildEnd};
use crate::{ensure, fail};
use ipc_channel::ipc::{self, IpcError, IpcReceiverSet, IpcSelectionResult, TryRecvError};
use proptest::prelude::*;
use serde::{Deserialize, Serialize};
use std::io::Write;
use std::sync::{Arc, Barrier};
use std::time::Duration;

pub struct C02;

#[derive(Clone, Debug, Serialize, Deserialize)]
pub struct Case {
    /// per sender: packets per message (1 = single packet)
    pub senders: Vec<Vec<u8>>,
    /// gated: sequence of sender indices, one per packet transmission; empty = free-running
    pub schedule: Vec<u8>,
    /// free-running: spin jitter before each message, per sender
    pub jitter: Vec<u16>,
    /// bit i set: sender i is a forked process (free-running only)
    pub process_mask: u8,
    /// 0 eager recv, 1 delayed until all sends returned, 2 try_recv polling, 3 receiver set,
    /// 4 try_recv_timeout loop (typed channels)
    pub recv_mode: u8,
    pub bytes: bool,
    /// free-running only: multi-packet messages are 40 times larger (senders block on full
    /// buffers while the receiver works) and a helper thread keeps interrupting the sender threads
    /// with a signal whose handler does nothing and is installed with SA_RESTART - which must not
    /// be observable
    #[serde(default)]
    pub big_and_signals: bool,
}

fn msg_len(packets: u8, salt: usize) -> usize {
    let (f1, f) = c01::capacities();
    match packets {
        0 | 1 => 40 + (salt * 37) % 900,
        k => f1 + (k as usize - 2) * f + 1 + (salt * 131) % (f - 1),
    }
}

/// all distinct permutations of the multiset {i repeated counts[i]}
fn multiset_perms(counts: &[usize]) -> Vec<Vec<u8>> {
    fn rec(counts: &mut Vec<usize>, cur: &mut Vec<u8>, total: usize, out: &mut Vec<Vec<u8>>) {
        if cur.len() == total {
            out.push(cur.clone());
            return;
        }
        for i in 0..counts.len() {
            if counts[i] > 0 {
                counts[i] -= 1;
                cur.push(i as u8);
                rec(counts, cur, total, out);
                cur.pop();
                counts[i] += 1;
            }
        }
    }
    let mut out = vec![];
    let total = counts.iter().sum();
    rec(&mut counts.to_vec(), &mut vec![], total, &mut out);
    out
}

fn config(senders: usize, msgs: usize, packets: u8) -> Vec<Vec<u8>> {
    vec![vec![packets; msgs]; senders]
}

impl Prop for C02 {
    type Case = Case;
    const ID: &'static str = "C02";
    const SCHEDULE_DEPENDENT: bool = true;

    fn setup(ctx: &Ctx) {
        c01::measure_capacities_for(ctx);
        let _ = ip::shared();
    }

    fn cases(ctx: &Ctx) -> u32 {
        ctx.param_u64("cases", ctx.pick(3000, 100000) as u64) as u32
    }

    fn strategy(_ctx: &Ctx) -> BoxedStrategy<Case> {
        let sender = proptest::collection::vec(prop_oneof![2 => Just(1u8), 3 => 2u8..=6], 1..=6);
        let gated = (proptest::collection::vec(sender.clone(), 2..=8), any::<u64>(), prop_oneof![Just(0u8), Just(2), Just(3), Just(4)], any::<bool>()).prop_map(|(mut senders, seed, recv_mode, bytes)| {
            // kernel budget: while the receiver waits for one message's follow-up packets it does
            // not drain the shared socket, so all first packets must fit there (<= 12 messages)
            let mut budget = 12usize;
            for s in senders.iter_mut() {
                let keep = s.len().min(budget.max(1)).max(1);
                s.truncate(keep);
                budget = budget.saturating_sub(s.len());
            }
            // schedule: a shuffle of the multiset driven by the generated seed (monotone in the case)
            let mut slots: Vec<u8> = vec![];
            for (i, s) in senders.iter().enumerate() {
                for p in s {
                    for _ in 0..*p {
                        slots.push(i as u8);
                    }
                }
            }
            let mut x = seed | 1;
            for i in (1..slots.len()).rev() {
                x ^= x << 13;
                x ^= x >> 7;
                x ^= x << 17;
                let j = (x % (i as u64 + 1)) as usize;
                slots.swap(i, j);
            }
            // per-sender order is implied (a sender's packets are its own sequence)
            Case { senders, schedule: slots, jitter: vec![], process_mask: 0, recv_mode, bytes, big_and_signals: false }
        });
        let free = (proptest::collection::vec(sender, 1..=8), proptest::collection::vec(0u16..4000, 8), prop_oneof![Just(0u8), any::<u8>()], 0u8..5, any::<bool>())
            .prop_map(|(senders, jitter, process_mask, recv_mode, bytes)| {
                // a quarter of the thread-only cases get big messages and signals
                let big_and_signals = process_mask == 0 && jitter.first().map(|j| j % 4 == 0).unwrap_or(false);
                Case { senders, schedule: vec![], jitter, process_mask, recv_mode, bytes, big_and_signals }
            });
        // the gate owns the packet order only if no real transmission can block: small packets only
        if cfg!(feature = "inproc") || c01::capacities().0 > 16384 {
            free.boxed()
        } else {
            prop_oneof![3 => gated, 1 => free].boxed()
        }
    }

    fn enumerated(ctx: &Ctx) -> Vec<Case> {
        if cfg!(feature = "inproc") || ctx.param("sndbuf") != Some("4096") {
            return vec![];
        }
        let mut v = vec![];
        let mut add = |senders: Vec<Vec<u8>>, recv_mode: u8| {
            let counts: Vec<usize> = senders.iter().map(|s| s.iter().map(|p| *p as usize).sum()).collect();
            for sch in multiset_perms(&counts) {
                v.push(Case { senders: senders.clone(), schedule: sch, jitter: vec![], process_mask: 0, recv_mode, bytes: false, big_and_signals: false });
            }
        };
        add(config(2, 2, 2), 1); // 70
        add(config(2, 2, 3), 0); // 924
        add(config(3, 1, 3), 1); // 1680
        if ctx.thorough {
            add(config(3, 2, 2), 1); // 34650
            add(config(2, 2, 3), 3);
            add(config(3, 1, 3), 2);
        }
        v
    }

    fn exec(_ctx: &Ctx, case: &Case) -> Result<Outcome, Failure> {
        run(case)
    }
}

#[derive(Debug, Clone, Serialize, Deserialize)]
struct SendRec {
    sender: u32,
    seq: u32,
    start: u64,
    end: u64,
    ok: bool,
}

enum Tx {
    T(ipc::IpcSender<Node>),
    B(ipc::IpcBytesSender),
}
enum Rx {
    T(ipc::IpcReceiver<Node>),
    B(ipc::IpcBytesReceiver),
}

fn do_sends(tx: &Tx, si: usize, msgs: &[u8], jitter: u16, big: bool) -> Vec<SendRec> {
    let mut out = vec![];
    for (k, p) in msgs.iter().enumerate() {
        sandbox::spin(jitter as u32 * 4);
        let mut len = msg_len(*p, si * 7 + k);
        if big && *p >= 2 {
            len = (len * 40).min(1_500_000);
        }
        if matches!(tx, Tx::T(_)) && len > 100 {
            len -= 24; // the typed wrapper adds 24 bytes: keep the packet count
        }
        let body = payload::make(0, si as u32, k as u32, len, (si * 1000 + k) as u64 + 3);
        let start = stamp();
        let ok = match tx {
            Tx::B(t) => t.send(&body).is_ok(),
            Tx::T(t) => {
                // serialised size = body + fixed overhead; shape the body so the packet count holds
                t.send(Node::Tagged { chan: 0, sender: si as u32, seq: k as u32, body }).is_ok()
            },
        };
        let end = stamp();
        out.push(SendRec { sender: si as u32, seq: k as u32, start, end, ok });
    }
    out
}

fn decode(v: Result<Vec<u8>, String>) -> Result<(u32, u32), String> {
    let b = v?;
    let p = payload::parse(&b)?;
    Ok((p.sender, p.seq))
}

fn run(case: &Case) -> Result<Outcome, Failure> {
    let debug = std::env::var("IPCV_C02_LOG").is_ok();
    if debug {
        ip::log_start(-1);
    }
    let r = run_inner(case);
    if debug {
        let ev = ip::log_stop();
        if let Err(f) = &r {
            let mut s = format!("{} {}\n", f.signature, f.detail);
            for e in ev {
                s.push_str(&format!("{:?}\n", e));
            }
            let _ = std::fs::write(format!("/tmp/c02log.{}", std::process::id()), s);
        }
    }
    r
}

fn run_inner(case: &Case) -> Result<Outcome, Failure> {
    let gated = !case.schedule.is_empty();
    let n_senders = case.senders.len();
    let total: usize = case.senders.iter().map(|s| s.len()).sum();
    let (tx, rx) = if case.bytes {
        let (t, r) = ipc::bytes_channel().map_err(|e| Failure::inconclusive(e.to_string()))?;
        (Tx::B(t), Rx::B(r))
    } else {
        let (t, r) = ipc::channel::<Node>().map_err(|e| Failure::inconclusive(e.to_string()))?;
        (Tx::T(t), Rx::T(r))
    };
    let clone_tx = |t: &Tx| match t {
        Tx::T(x) => Tx::T(x.clone()),
        Tx::B(x) => Tx::B(x.clone()),
    };
    // the typed wrapper adds a constant to the length: account for it so that `packets` holds
    let process_mask = if gated || cfg!(feature = "inproc") { 0 } else { case.process_mask };
    let mut recv_mode = case.recv_mode % 5;
    if case.bytes && recv_mode >= 3 {
        recv_mode = 0; // bytes receivers cannot join a set and have no timed receive
    }
    // delayed receive is only sound if everything fits into kernel buffers
    let first_packets: usize = total;
    if recv_mode == 1 && (first_packets > 12 || c01::capacities().0 > 16384 || cfg!(feature = "inproc") && false) {
        recv_mode = 0;
    }

    // forked sender processes first (single-threaded here).  The forking thread has itself used
    // the library for a multi-packet message before, as a long-lived program would have: whatever
    // per-thread state the library keeps is then inherited by the children.
    if process_mask != 0 {
        let (wtx, wrx) = ipc::bytes_channel().map_err(|e| Failure::inconclusive(e.to_string()))?;
        let warm = payload::make(9, 9, 9, msg_len(2, 1), 1);
        let w2 = warm.clone();
        let h = std::thread::spawn(move || wrx.recv().map(|v| v == w2).unwrap_or(false));
        let ok = wtx.send(&warm).is_ok();
        let got = h.join().unwrap_or(false);
        ensure!(ok && got, "send:warmup-failed", "a plain multi-packet round trip before forking failed");
    }
    let mut children = vec![];
    for si in 0..n_senders {
        if process_mask >> si & 1 == 1 {
            let t = clone_tx(&tx);
            let msgs = case.senders[si].clone();
            let jit = case.jitter.get(si).copied().unwrap_or(0);
            let c = sandbox::fork_child(|w| {
                let recs = do_sends(&t, si, &msgs, jit, false);
                drop(t);
                let _ = w.write_all(serde_json::to_string(&recs).unwrap().as_bytes());
                0
            });
            children.push((si, c));
        }
    }

    if gated {
        let sched: Vec<u32> = case.schedule.iter().map(|x| *x as u32).collect();
        ip::gate_install(&sched);
    }
    let barrier = Arc::new(Barrier::new(n_senders - children.len() + 1));
    let big = case.big_and_signals && !gated && !cfg!(feature = "inproc") && recv_mode != 1;
    let tids_all: Arc<std::sync::Mutex<Vec<i32>>> = Default::default();
    let pester_stop = Arc::new(std::sync::atomic::AtomicBool::new(false));
    let mut threads = vec![];
    for si in 0..n_senders {
        if process_mask >> si & 1 == 1 {
            continue;
        }
        let t = clone_tx(&tx);
        let msgs = case.senders[si].clone();
        let jit = case.jitter.get(si).copied().unwrap_or(0);
        let b = barrier.clone();
        let tids = tids_all.clone();
        threads.push(std::thread::spawn(move || {
            if gated {
                ip::register_participant(si);
            }
            tids.lock().unwrap().push(ip::gettid());
            b.wait();
            let r = do_sends(&t, si, &msgs, jit, big);
            if gated {
                ip::unregister_participant(si);
            }
            drop(t);
            r
        }));
    }
    drop(tx);

    // receiver
    let receiver = move |start_gate: std::sync::mpsc::Receiver<()>| -> (Vec<Result<(u32, u32), String>>, bool) {
        if recv_mode == 1 {
            let _ = start_gate.recv();
        }
        let mut got = vec![];
        let mut disc = false;
        match rx {
            Rx::B(r) => loop {
                let x = if recv_mode == 2 {
                    match r.try_recv() {
                        Ok(v) => Ok(v),
                        Err(TryRecvError::Empty) => {
                            std::thread::yield_now();
                            continue;
                        },
                        Err(TryRecvError::IpcError(e)) => Err(e),
                    }
                } else {
                    r.recv()
                };
                match x {
                    Ok(v) => got.push(decode(Ok(v))),
                    Err(IpcError::Disconnected) => {
                        disc = true;
                        break;
                    },
                    Err(e) => {
                        got.push(Err(format!("{:?}", e)));
                        break;
                    },
                }
            },
            Rx::T(r) => {
                let unpack = |n: Node| match n {
                    Node::Tagged { body, .. } => decode(Ok(body)),
                    other => Err(format!("unexpected value {}", crate::node::rendered(&other))),
                };
                if recv_mode == 3 {
                    let mut set = IpcReceiverSet::new().unwrap();
                    let id = set.add(r).unwrap();
                    'outer: loop {
                        match set.select() {
                            Ok(evs) => {
                                for e in evs {
                                    match e {
                                        IpcSelectionResult::MessageReceived(i, m) => {
                                            if i != id {
                                                got.push(Err(format!("message for unknown id {}", i)));
                                            }
                                            got.push(m.to::<Node>().map_err(|e| e.to_string()).and_then(unpack));
                                        },
                                        IpcSelectionResult::ChannelClosed(_) => {
                                            disc = true;
                                            break 'outer;
                                        },
                                    }
                                }
                            },
                            Err(e) => {
                                got.push(Err(format!("select: {}", e)));
                                break;
                            },
                        }
                    }
                } else {
                    loop {
                        let x = if recv_mode == 2 || recv_mode == 4 {
                            let q = if recv_mode == 2 { r.try_recv() } else { r.try_recv_timeout(Duration::from_millis(2)) };
                            match q {
                                Ok(v) => Ok(v),
                                Err(TryRecvError::Empty) => {
                                    std::thread::yield_now();
                                    continue;
                                },
                                Err(TryRecvError::IpcError(e)) => Err(e),
                            }
                        } else {
                            r.recv()
                        };
                        match x {
                            Ok(v) => got.push(unpack(v)),
                            Err(IpcError::Disconnected) => {
                                disc = true;
                                break;
                            },
                            Err(e) => {
                                got.push(Err(format!("{:?}", e)));
                                break;
                            },
                        }
                    }
                }
            },
        }
        (got, disc)
    };
    let (go_tx, go_rx) = std::sync::mpsc::channel();
    let rthread = std::thread::spawn(move || receiver(go_rx));
    barrier.wait();
    let pesterer = if big {
        install_noop_sigusr1();
        let (tids, stop) = (tids_all.clone(), pester_stop.clone());
        Some(std::thread::spawn(move || {
            let pid = unsafe { libc::getpid() };
            let mut n = 0u64;
            while !stop.load(std::sync::atomic::Ordering::SeqCst) {
                for t in tids.lock().unwrap().iter() {
                    unsafe { libc::syscall(libc::SYS_tgkill, pid, *t, libc::SIGUSR1) };
                    n += 1;
                }
                std::thread::sleep(Duration::from_micros(60));
            }
            n
        }))
    } else {
        None
    };

    // join senders (under the watchdog: a gate that never opens would be a harness bug, a send that
    // never returns a library hang)
    let joined = sandbox::watched(move || threads.into_iter().map(|t| t.join()).collect::<Vec<_>>());
    pester_stop.store(true, std::sync::atomic::Ordering::SeqCst);
    let signals = pesterer.map(|p| p.join().unwrap_or(0)).unwrap_or(0);
    let consumed = if gated { ip::gate_position() as usize } else { 0 };
    if gated {
        ip::gate_remove();
    }
    let joined = match joined {
        Ok(j) => j,
        Err(h) => return Err(sandbox::hang_failure("send:hangs", "a sender thread never finished although the receiver exists and buffers are within budget", h)),
    };
    let mut recs: Vec<SendRec> = vec![];
    for j in joined {
        recs.extend(j.map_err(|_| Failure::new("send:panicked", "a sender thread panicked"))?);
    }
    for (si, c) in children {
        let (end, buf) = c.wait(Duration::from_secs(sandbox::watchdog_secs()));
        match end {
            ChildEnd::Exited(0) => {},
            ChildEnd::TimedOut => return Err(Failure::inconclusive(format!("sender process {} did not finish", si))),
            other => fail!("send:process-died", "sender process {} ended {:?}", si, other),
        }
        let r: Vec<SendRec> = serde_json::from_slice(&buf).map_err(|e| Failure::inconclusive(format!("bad report from sender process: {}", e)))?;
        recs.extend(r);
    }
    let _ = go_tx.send(());
    let all_returned = stamp();
    let (got, disc) = match sandbox::watched(move || rthread.join()) {
        Ok(Ok(x)) => x,
        Ok(Err(_)) => fail!("recv:panicked", "the receiver panicked: {:?}", crate::take_panics()),
        Err(h) => return Err(sandbox::hang_failure("recv:hangs-after-all-sends-returned", &format!("all {} sends returned (stamp {}) and every sender handle was dropped, the receiver (mode {}) does not finish", recs.len(), all_returned, recv_mode), h)),
    };

    // ---- oracle -------------------------------------------------------------------------------------
    for r in &recs {
        ensure!(r.ok, "send:failed", "send ({},{}) failed although the receiver exists", r.sender, r.seq);
    }
    let mut order: Vec<(u32, u32)> = vec![];
    for g in got {
        match g {
            Ok(t) => order.push(t),
            Err(e) => fail!("recv:corrupt-or-error", "a delivered message is not whole / a receive failed: {}", e),
        }
    }
    ensure!(disc, "recv:no-disconnect", "the receiver stopped without Disconnected");
    let mut seen = std::collections::BTreeMap::new();
    for (i, t) in order.iter().enumerate() {
        if let Some(prev) = seen.insert(*t, i) {
            fail!("recv:duplicate", "message {:?} delivered twice (positions {} and {})", t, prev, i);
        }
    }
    for r in &recs {
        ensure!(seen.contains_key(&(r.sender, r.seq)), "recv:lost", "message ({},{}) whose send returned Ok was never delivered ({} of {} delivered)", r.sender, r.seq, order.len(), recs.len());
    }
    ensure!(order.len() == recs.len(), "recv:invented", "{} messages delivered but only {} were sent", order.len(), recs.len());
    // happened-before => delivery order
    let mut hb_pairs = 0u64;
    for a in &recs {
        for b in &recs {
            if a.end < b.start {
                hb_pairs += 1;
                let (ia, ib) = (seen[&(a.sender, a.seq)], seen[&(b.sender, b.seq)]);
                ensure!(ia < ib, "recv:order", "send ({},{}) returned (stamp {}) before send ({},{}) began (stamp {}), yet it was delivered later (positions {} and {})", a.sender, a.seq, a.end, b.sender, b.seq, b.start, ia, ib);
            }
        }
    }
    // non-trivial: >= 2 senders and a multi-packet message whose packets interleave with another's
    let multi = case.senders.iter().any(|s| s.iter().any(|p| *p >= 2));
    let interleaved = if gated {
        // some sender's consecutive slots are separated by another sender's slot
        let mut last: Vec<Option<usize>> = vec![None; n_senders];
        let mut inter = false;
        for (i, s) in case.schedule.iter().enumerate() {
            if let Some(l) = last[*s as usize] {
                if i - l > 1 {
                    inter = true;
                }
            }
            last[*s as usize] = Some(i);
        }
        inter
    } else {
        // overlapping send intervals of different senders
        recs.iter().any(|a| recs.iter().any(|b| a.sender != b.sender && a.start < b.end && b.start < a.end))
    };
    let nontrivial = n_senders >= 2 && multi && interleaved;
    let class = format!(
        "{}/{}{}{}{}",
        if gated { "gated" } else { "free" },
        ["eager", "delayed", "polling", "set", "timed"][recv_mode as usize],
        if case.bytes { "+bytes" } else { "" },
        if process_mask != 0 { "+processes" } else { "" },
        if nontrivial { "+interleaved-multipacket" } else { "" }
    ) + if big { "+big+signals" } else { "" };
    Ok(Outcome::new(nontrivial, class)
        .with("messages", total as u64)
        .with("happened_before_pairs_checked", hb_pairs)
        .with("gated_schedules", gated as u64)
        .with("signals_delivered_to_sender_threads", signals)
        .with("gated_schedules_consumed_exactly", (gated && consumed == case.schedule.len()) as u64))
}

/// SIGUSR1 handler that does nothing, installed with SA_RESTART (once per process).
fn install_noop_sigusr1() {
    use std::sync::Once;
    static ONCE: Once = Once::new();
    extern "C" fn noop(_: libc::c_int) {}
    ONCE.call_once(|| unsafe {
        let mut sa: libc::sigaction = std::mem::zeroed();
        sa.sa_sigaction = noop as *const () as usize;
        sa.sa_flags = libc::SA_RESTART;
        libc::sigemptyset(&mut sa.sa_mask);
        libc::sigaction(libc::SIGUSR1, &sa, std::ptr::null_mut());
    });
}
