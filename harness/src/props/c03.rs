//! C03 - disconnection is reported exactly when no sender can exist any more.
//!
//! Phase A (deterministic histories): generated clone / move-to-thread / move-to-forked-process /
//! embed / extract / drop-handle / drop-carrying-receiver histories over an acyclic family of <= 6
//! channels run in lock-step with the world model; every receive result must be the model's.
//! Phase B (races): the last k sender handles are dropped by k threads (each after sending its
//! own messages) while the receiver sits in `recv`, `try_recv_timeout(d)` or a `try_recv` loop; an
//! optional further handle sits inside a message on a carrier channel whose receiver is dropped (or
//! unpacked and dropped) by yet another thread.  Verdicts come from stamps of a shared logical
//! clock, never from elapsed time.

use crate::engine::{Ctx, Failure, Outcome, Prop};
use crate::interpose::stamp;
use crate::node::Node;
use crate::payload;
use crate::props::c01;
use crate::sandbox;
use crate::world::{self, Op, World};
use crate::{ensure, fail};
use ipc_channel::ipc::{self, IpcError, TryRecvError};
use proptest::prelude::*;
use serde::{Deserialize, Serialize};
use std::time::Duration;

pub struct C03;

#[derive(Clone, Debug, Serialize, Deserialize)]
pub struct SenderPlan {
    /// message sizes: 0 = small, 1..=5 = that many packets + 1
    pub msgs: Vec<u8>,
    pub jitter: Vec<u16>,
    pub drop_jitter: u16,
}

#[derive(Clone, Debug, Serialize, Deserialize)]
pub enum Carrier {
    None,
    /// a sender clone sits in a message on a carrier channel; a thread drops the carrier receiver
    DropCarrier { jitter: u16 },
    /// ... or receives the message and drops the extracted sender
    Unpack { jitter: u16, send_first: bool },
}

#[derive(Clone, Debug, Serialize, Deserialize)]
pub enum Case {
    History { ops: Vec<Op> },
    Race { senders: Vec<SenderPlan>, carrier: Carrier, mode: u8, timeout_ms: u8 },
}

fn sender_plan() -> BoxedStrategy<SenderPlan> {
    (proptest::collection::vec(prop_oneof![3 => Just(0u8), 1 => 1u8..=4], 0..4), proptest::collection::vec(0u16..3000, 4), 0u16..3000)
        .prop_map(|(msgs, jitter, drop_jitter)| SenderPlan { msgs, jitter, drop_jitter })
        .boxed()
}

#[derive(Debug)]
enum Got {
    Msg(u32, u32),
    Empty,
    Disc,
    Bad(String),
}

impl Prop for C03 {
    type Case = Case;
    const ID: &'static str = "C03";
    const SCHEDULE_DEPENDENT: bool = true;

    fn setup(ctx: &Ctx) {
        c01::measure_capacities_for(ctx);
    }

    fn cases(ctx: &Ctx) -> u32 {
        ctx.param_u64("cases", ctx.pick(1500, 30000) as u64) as u32
    }

    fn strategy(ctx: &Ctx) -> BoxedStrategy<Case> {
        let max_len = if ctx.thorough { 120 } else { 40 };
        //  create clone droptx droprx send recv region set server remote
        let hist = world::program_strategy([3, 5, 7, 3, 7, 8, 0, 1, 0, 4], 3, max_len).prop_map(|ops| Case::History { ops });
        let race = (
            proptest::collection::vec(sender_plan(), 1..6),
            prop_oneof![
                2 => Just(Carrier::None),
                1 => (0u16..3000).prop_map(|jitter| Carrier::DropCarrier { jitter }),
                1 => (0u16..3000, any::<bool>()).prop_map(|(jitter, send_first)| Carrier::Unpack { jitter, send_first }),
            ],
            0u8..3,
            prop_oneof![Just(0u8), Just(1), 1u8..20],
        )
            .prop_map(|(senders, carrier, mode, timeout_ms)| Case::Race { senders, carrier, mode, timeout_ms });
        prop_oneof![3 => hist, 2 => race].boxed()
    }

    fn exec(_ctx: &Ctx, case: &Case) -> Result<Outcome, Failure> {
        match case {
            Case::History { ops } => {
                let (f1, f) = c01::capacities();
                let mut w = World::new(f1, f);
                for op in ops {
                    w.step(op)?;
                }
                w.release_all()?;
                w.drain_all()?;
                let s = &w.stats;
                let nt = s.zero_held_senders_with_in_transit > 0 || s.destroyed_in_transit > 0;
                let class = format!(
                    "history{}{}{}",
                    if s.zero_held_senders_with_in_transit > 0 { "+only-in-transit-senders" } else { "" },
                    if s.destroyed_in_transit > 0 { "+carrier-dropped" } else { "" },
                    if s.remote_holds > 0 { if s.fork_holds > 0 { "+process-holder" } else { "+thread-holder" } } else { "" },
                );
                Ok(Outcome::new(nt, class)
                    .with("disconnects_seen", s.disconnects_seen as u64)
                    .with("empties_seen", s.empties_seen as u64)
                    .with("handles_destroyed_in_transit", s.destroyed_in_transit as u64)
                    .with("remote_holds", s.remote_holds as u64)
                    .with("fork_holds", s.fork_holds as u64))
            },
            Case::Race { senders, carrier, mode, timeout_ms } => race(senders, carrier, *mode, *timeout_ms),
        }
    }
}

fn msg_len(class: u8) -> usize {
    let (f1, f) = c01::capacities();
    match class {
        0 => 64,
        k => (f1 + (k as usize) * f - 9).min(600_000),
    }
}

fn race(senders: &[SenderPlan], carrier: &Carrier, mode: u8, timeout_ms: u8) -> Result<Outcome, Failure> {
    let (tx, rx) = ipc::channel::<Node>().map_err(|e| Failure::inconclusive(format!("channel: {}", e)))?;
    let total_msgs: usize = senders.iter().map(|s| s.msgs.len()).sum();
    // the carrier: a clone of tx travels in a message on `ctx_`
    let (car_tx, car_rx) = ipc::channel::<Node>().map_err(|e| Failure::inconclusive(format!("channel: {}", e)))?;
    let has_carrier = !matches!(carrier, Carrier::None);
    if has_carrier {
        car_tx.send(Node::Tx(tx.clone())).map_err(|e| Failure::new("race:carrier-send-failed", e.to_string()))?;
    }
    drop(car_tx);

    // receiver thread
    let mode = mode % 3;
    let d = Duration::from_millis(timeout_ms as u64);
    let recv_thread = std::thread::spawn(move || {
        let mut log: Vec<(u64, u64, Got)> = vec![];
        let mut spins = 0u64;
        loop {
            let s = stamp();
            let g = match mode {
                0 => match rx.recv() {
                    Ok(Node::Tagged { sender, seq, body, .. }) => match payload::parse(&body) {
                        Ok(_) => Got::Msg(sender, seq),
                        Err(e) => Got::Bad(e),
                    },
                    Ok(other) => Got::Bad(format!("unexpected value {}", crate::node::rendered(&other))),
                    Err(IpcError::Disconnected) => Got::Disc,
                    Err(e) => Got::Bad(format!("{:?}", e)),
                },
                _ => {
                    let r = if mode == 1 { rx.try_recv_timeout(d) } else { rx.try_recv() };
                    match r {
                        Ok(Node::Tagged { sender, seq, body, .. }) => match payload::parse(&body) {
                            Ok(_) => Got::Msg(sender, seq),
                            Err(e) => Got::Bad(e),
                        },
                        Ok(other) => Got::Bad(format!("unexpected value {}", crate::node::rendered(&other))),
                        Err(TryRecvError::Empty) => Got::Empty,
                        Err(TryRecvError::IpcError(IpcError::Disconnected)) => Got::Disc,
                        Err(TryRecvError::IpcError(e)) => Got::Bad(format!("{:?}", e)),
                    }
                },
            };
            let r = stamp();
            let fin = matches!(g, Got::Disc | Got::Bad(_));
            if matches!(g, Got::Empty) {
                spins += 1;
                if mode == 2 {
                    std::thread::yield_now();
                }
                // do not log every Empty of a spin loop: keep the first few and then every 1024th
                if spins > 8 && spins % 1024 != 0 {
                    continue;
                }
            }
            log.push((s, r, g));
            if fin {
                break;
            }
        }
        log
    });

    // sender threads: each owns one clone, sends its messages, drops the clone
    let mut handles = vec![];
    for (si, plan) in senders.iter().enumerate() {
        let t = tx.clone();
        let plan = plan.clone();
        handles.push(std::thread::spawn(move || {
            let mut sends = vec![];
            for (k, class) in plan.msgs.iter().enumerate() {
                sandbox::spin(plan.jitter[k % plan.jitter.len()] as u32 * 8);
                let body = payload::make(0, si as u32, k as u32, msg_len(*class).max(payload::HEADER), (si * 131 + k) as u64 + 5);
                let s = stamp();
                let r = t.send(Node::Tagged { chan: 0, sender: si as u32, seq: k as u32, body });
                let e = stamp();
                sends.push((s, e, r.map_err(|x| x.to_string())));
            }
            sandbox::spin(plan.drop_jitter as u32 * 8);
            let ds = stamp();
            drop(t);
            let de = stamp();
            (sends, ds, de)
        }));
    }
    // carrier thread
    let car = carrier.clone();
    let car_thread = std::thread::spawn(move || -> Result<(u64, u64, Vec<(u64, u64, Result<(), String>)>), String> {
        match car {
            Carrier::None => {
                drop(car_rx);
                Ok((0, 0, vec![]))
            },
            Carrier::DropCarrier { jitter } => {
                sandbox::spin(jitter as u32 * 8);
                let ds = stamp();
                drop(car_rx);
                let de = stamp();
                Ok((ds, de, vec![]))
            },
            Carrier::Unpack { jitter, send_first } => {
                let got = car_rx.recv().map_err(|e| format!("carrier recv: {:?}", e))?;
                let Node::Tx(t) = got else { return Err("carrier delivered something else".into()) };
                let mut sends = vec![];
                if send_first {
                    let body = payload::make(0, 99, 0, 80, 4242);
                    let s = stamp();
                    let r = t.send(Node::Tagged { chan: 0, sender: 99, seq: 0, body });
                    let e = stamp();
                    sends.push((s, e, r.map_err(|x| x.to_string())));
                }
                sandbox::spin(jitter as u32 * 8);
                let ds = stamp();
                drop(t);
                let de = stamp();
                drop(car_rx);
                Ok((ds, de, sends))
            },
        }
    });
    // the original handle goes last or first depending on nothing: drop it now (stamped)
    let ods = stamp();
    drop(tx);
    let ode = stamp();

    let mut drops: Vec<(u64, u64)> = vec![(ods, ode)];
    let mut all_sends: Vec<(u32, u32, u64, u64)> = vec![];
    for (si, h) in handles.into_iter().enumerate() {
        let (sends, ds, de) = h.join().map_err(|_| Failure::new("race:sender-panicked", "a sender thread panicked"))?;
        for (k, (s, e, r)) in sends.into_iter().enumerate() {
            ensure!(r.is_ok(), "race:send-failed", "send {} of sender {} failed although the receiver exists: {:?}", k, si, r);
            all_sends.push((si as u32, k as u32, s, e));
        }
        drops.push((ds, de));
    }
    let (cds, cde, csends) = car_thread
        .join()
        .map_err(|_| Failure::new("race:carrier-panicked", "the carrier thread panicked"))?
        .map_err(|e| Failure::new("race:carrier-failed", e))?;
    if has_carrier {
        drops.push((cds, cde));
    }
    for (k, (s, e, r)) in csends.into_iter().enumerate() {
        ensure!(r.is_ok(), "race:send-failed", "send through the unpacked sender failed: {:?}", r);
        all_sends.push((99, k as u32, s, e));
    }
    let last_drop_returned = stamp();

    // every sender handle is gone now: the receiver must finish (hang rule: cause established)
    let log = match sandbox::watched(move || recv_thread.join()) {
        Ok(Ok(l)) => l,
        Ok(Err(_)) => fail!("race:receiver-panicked", "the receiving thread panicked"),
        Err(h) => {
            return Err(sandbox::hang_failure(
                "race:blocked-after-last-drop",
                &format!("receiver (mode {}) still waiting although all {} sender handles were dropped (last drop returned at stamp {})", mode, drops.len(), last_drop_returned),
                h,
            ))
        },
    };

    // ---- oracle over the history -----------------------------------------------------------------
    let first_drop_start_max = drops.iter().map(|d| d.0).max().unwrap();
    let mut next_seq: std::collections::BTreeMap<u32, u32> = Default::default();
    let mut delivered = 0usize;
    let mut saw_disc = false;
    for (s, r, g) in &log {
        match g {
            Got::Msg(sender, seq) => {
                ensure!(!saw_disc, "race:message-after-disconnected", "message ({},{}) delivered after Disconnected", sender, seq);
                let e = next_seq.entry(*sender).or_insert(0);
                ensure!(*seq == *e, "race:order", "sender {}: expected message {} but received {}", sender, e, seq);
                *e += 1;
                delivered += 1;
                // a message cannot be received before its send started
                let snd = all_sends.iter().find(|x| x.0 == *sender && x.1 == *seq);
                match snd {
                    Some(x) => ensure!(x.2 < *r, "race:message-from-the-future", "message ({},{}) received (return stamp {}) before its send started ({})", sender, seq, r, x.2),
                    None => fail!("race:unknown-message", "received message ({},{}) that nobody sent", sender, seq),
                }
            },
            Got::Empty => {
                ensure!(mode != 0, "race:empty-from-blocking-recv", "blocking recv returned Empty");
                // Empty is wrong if every handle had been dropped before the call started and nothing is pending
                let _ = s;
            },
            Got::Disc => {
                saw_disc = true;
                // illegal if some sender handle was provably alive for the whole call
                ensure!(
                    first_drop_start_max < *r,
                    "race:false-disconnected",
                    "Disconnected returned at stamp {} although a sender handle was dropped only from stamp {} on",
                    r,
                    first_drop_start_max
                );
                ensure!(
                    delivered == all_sends.len(),
                    "race:disconnected-before-backlog",
                    "Disconnected after {} of {} successfully sent messages were delivered",
                    delivered,
                    all_sends.len()
                );
            },
            Got::Bad(e) => fail!("race:receive-error", "receive failed: {}", e),
        }
    }
    ensure!(saw_disc, "race:no-disconnect", "receiver finished without reporting Disconnected");
    let multi = senders.iter().any(|s| s.msgs.iter().any(|m| *m > 0));
    let class = format!(
        "race/{}{}{}",
        ["recv", "try_recv_timeout", "try_recv"][mode as usize],
        match carrier {
            Carrier::None => "",
            Carrier::DropCarrier { .. } => "+carrier-dropped",
            Carrier::Unpack { .. } => "+carrier-unpacked",
        },
        if multi { "+multipacket" } else { "" }
    );
    Ok(Outcome::new(true, class).with("race_messages", total_msgs as u64).with("race_sender_threads", senders.len() as u64))
}
