//! C04 - endpoints sent inside messages keep their identity, position and backlog.
//!
//! (a) Trees: generated value trees with up to 63 endpoint leaves of all kinds (sender, receiver,
//! opaque sender/receiver, bytes sender/receiver) and regions at arbitrary positions, small or
//! multi-packet, executed in lock-step with the world model: position by canonical rendering,
//! identity by probes (a nonce through every sender, original and received, must come out of the
//! receiver the model names), regions by content.
//! (b) Chains: a receiver with 0..20 pending messages is passed through 1..5 intermediaries (same
//! thread, another thread, a forked process); messages are sent before, between and after the hops,
//! also through a sender that travelled with it; intermediaries may consume part of the backlog.
//! All consumed + finally drained messages must be exactly the sent sequence, in order.

use crate::engine::{Ctx, Failure, Outcome, Prop};
use crate::node::Node;
use crate::payload;
use crate::props::c01;
use crate::sandbox::{self, ChildEnd};
use crate::world::{self, Op, World};
use crate::{ensure, fail};
use ipc_channel::ipc::{self, IpcError, IpcReceiver, IpcSender, TryRecvError};
use proptest::prelude::*;
use serde::{Deserialize, Serialize};
use std::io::Write;
use std::time::Duration;

pub struct C04;

#[derive(Clone, Debug, Serialize, Deserialize)]
pub struct Hop {
    /// 0 = same thread, 1 = another thread, 2 = forked process (thread on the in-process build)
    pub kind: u8,
    /// messages the intermediary takes from the transferred receiver while it holds it
    pub consume: u8,
    /// messages sent on the channel while the receiver is in transit / held by the intermediary
    pub between: u8,
    /// size class of the carrying message: 0 small, k>0: k+1 packets
    pub carrier_size: u8,
    /// send the `between` messages through the sender that travelled along
    pub via_travelled: bool,
}

#[derive(Clone, Debug, Serialize, Deserialize)]
pub enum Case {
    Trees { ops: Vec<Op> },
    Chain { backlog: u8, hops: Vec<Hop>, after: u8 },
}

fn tagged(seq: u32) -> Node {
    Node::Tagged { chan: 7, sender: 0, seq, body: payload::make(7, 0, seq, 48, seq as u64 + 9) }
}

fn seq_of(n: &Node) -> Result<u32, String> {
    match n {
        Node::Tagged { chan: 7, seq, body, .. } => payload::parse(body).map(|_| *seq),
        other => Err(format!("unexpected value {}", crate::node::rendered(other))),
    }
}

fn take_n(rx: &IpcReceiver<Node>, n: u8, out: &mut Vec<u32>) -> Result<(), String> {
    for _ in 0..n {
        match rx.try_recv() {
            Ok(v) => out.push(seq_of(&v)?),
            Err(TryRecvError::Empty) => break,
            Err(e) => return Err(format!("intermediary receive failed: {:?}", e)),
        }
    }
    Ok(())
}

/// What an intermediary does: receive (rx_x, tx_x) from `cin`, consume, forward on `cout`.
fn intermediary(cin: IpcReceiver<Node>, cout: IpcSender<Node>, consume: u8, pad: usize) -> Result<Vec<u32>, String> {
    let got = cin.recv().map_err(|e| format!("carrier receive failed: {:?}", e))?;
    let Node::Pair(a, b) = got else { return Err("carrier delivered something else".into()) };
    let (Node::Pair(rxn, txn), Node::Bytes(_)) = (*a, *b) else { return Err("carrier payload has the wrong shape".into()) };
    let (Node::Rx(rx), Node::Tx(tx)) = (*rxn, *txn) else { return Err("endpoints arrived in the wrong positions".into()) };
    let mut seen = vec![];
    take_n(&rx, consume, &mut seen)?;
    cout.send(Node::Pair(Box::new(Node::Pair(Box::new(Node::Rx(rx)), Box::new(Node::Tx(tx)))), Box::new(Node::Bytes(payload::stream(3, pad)))))
        .map_err(|e| format!("forwarding failed: {}", e))?;
    Ok(seen)
}

impl Prop for C04 {
    type Case = Case;
    const ID: &'static str = "C04";

    fn setup(ctx: &Ctx) {
        c01::measure_capacities_for(ctx);
    }

    fn cases(ctx: &Ctx) -> u32 {
        ctx.param_u64("cases", ctx.pick(1200, 24000) as u64) as u32
    }

    fn strategy(_ctx: &Ctx) -> BoxedStrategy<Case> {
        // trees: many channels first, then big messages and receives
        let big_tree = prop_oneof![
            2 => crate::node::tree(world::ep_leaf(), 4, 64),
            1 => proptest::collection::vec(world::ep_leaf(), 0..70).prop_map(crate::node::NP::List),
            1 => proptest::collection::vec(("[a-h]{1,2}", world::ep_leaf()), 0..40).prop_map(crate::node::NP::Map),
        ];
        let big_send = (any::<u16>(), world::size_strategy(), big_tree).prop_map(|(tx, size, tree)| Op::Send { tx, size, tree });
        let op = prop_oneof![
            3 => Just(Op::NewChan),
            1 => Just(Op::NewBytesChan),
            2 => any::<u16>().prop_map(Op::CloneTx),
            6 => big_send,
            5 => (any::<u16>(), 0u8..4).prop_map(|(rx, mode)| Op::Recv { rx, mode }),
            1 => any::<u16>().prop_map(Op::DropTx),
        ];
        let trees = proptest::collection::vec(op, 1..30).prop_map(|mut ops| {
            let mut v = vec![Op::NewChan, Op::NewChan, Op::NewBytesChan, Op::NewChan];
            v.append(&mut ops);
            Case::Trees { ops: v }
        });
        let hop = (0u8..3, 0u8..6, 0u8..5, prop_oneof![3 => Just(0u8), 1 => 1u8..4], any::<bool>())
            .prop_map(|(kind, consume, between, carrier_size, via_travelled)| Hop { kind, consume, between, carrier_size, via_travelled });
        let chain = (0u8..=20, proptest::collection::vec(hop, 1..=5), 0u8..5).prop_map(|(backlog, hops, after)| Case::Chain { backlog, hops, after });
        prop_oneof![3 => trees, 2 => chain].boxed()
    }

    fn exec(_ctx: &Ctx, case: &Case) -> Result<Outcome, Failure> {
        match case {
            Case::Trees { ops } => {
                let (f1, f) = c01::capacities();
                let mut w = World::new(f1, f).with_max_chans(10).with_max_items(63);
                for op in ops {
                    w.step(op)?;
                }
                w.probe_all()?;
                let s = &w.stats;
                let nt = s.kinds_in_one_msg > 0;
                let class = format!(
                    "trees{}{}{}",
                    if nt { "+mixed-kinds+region" } else { "" },
                    if s.max_items_in_one_msg >= 32 { "+32..63-attachments" } else if s.max_items_in_one_msg >= 9 { "+9..31-attachments" } else { "" },
                    if s.multi_packet > 0 { "+multipacket" } else { "" }
                );
                Ok(Outcome::new(nt, class)
                    .with("endpoint_transfers", s.endpoint_transfers as u64)
                    .with("receiver_transfers", s.receiver_transfers as u64)
                    .with("region_transfers", s.region_transfers as u64)
                    .with("backlog_messages_transferred", s.backlog_transferred as u64)
                    .with("max_attachments_in_one_message", s.max_items_in_one_msg as u64))
            },
            Case::Chain { backlog, hops, after } => chain(*backlog, hops, *after),
        }
    }
}

fn chain(backlog: u8, hops: &[Hop], after: u8) -> Result<Outcome, Failure> {
    let (f1, f) = c01::capacities();
    let (tx_x, rx_x) = ipc::channel::<Node>().map_err(|e| Failure::inconclusive(format!("channel: {}", e)))?;
    let mut sent = 0u32;
    for _ in 0..backlog {
        tx_x.send(tagged(sent)).map_err(|e| Failure::new("chain:send-failed", e.to_string()))?;
        sent += 1;
    }
    let mut consumed: Vec<u32> = vec![];
    let mut holder_rx = Some(rx_x);
    let mut travelled_tx = tx_x.clone();
    let mut used_process = false;
    for (i, hop) in hops.iter().enumerate() {
        let (cin_tx, cin_rx) = ipc::channel::<Node>().map_err(|e| Failure::inconclusive(format!("channel: {}", e)))?;
        let (cout_tx, cout_rx) = ipc::channel::<Node>().map_err(|e| Failure::inconclusive(format!("channel: {}", e)))?;
        let pad = match hop.carrier_size {
            0 => 10,
            k => f1 + (k as usize) * f - 77,
        }
        .min(400_000);
        // send the receiver (with its backlog) and the travelling sender into the carrier
        let rx = holder_rx.take().unwrap();
        let carrier_msg = Node::Pair(Box::new(Node::Pair(Box::new(Node::Rx(rx)), Box::new(Node::Tx(travelled_tx)))), Box::new(Node::Bytes(payload::stream(3, pad))));
        // multi-packet carriers need a concurrent reader: the intermediary is started first for
        // thread/process kinds; for the same-thread kind the carrier stays within kernel buffers
        let pad_same = pad.min(f1 / 2);
        let kind = if cfg!(feature = "inproc") && hop.kind == 2 { 1 } else { hop.kind % 3 };
        let consume = hop.consume;
        let seen: Vec<u32> = match kind {
            0 => {
                let Node::Pair(eps, _) = carrier_msg else { unreachable!() };
                cin_tx
                    .send(Node::Pair(eps, Box::new(Node::Bytes(payload::stream(3, pad_same)))))
                    .map_err(|e| Failure::new("chain:carrier-send-failed", e.to_string()))?;
                // traffic while the receiver is in transit
                for _ in 0..hop.between {
                    tx_x.send(tagged(sent)).map_err(|e| Failure::new("chain:send-to-in-transit-receiver-failed", format!("hop {}: {}", i, e)))?;
                    sent += 1;
                }
                intermediary(cin_rx, cout_tx, consume, pad_same).map_err(|e| Failure::new("chain:intermediary-failed", format!("hop {} (same thread): {}", i, e)))?
            },
            1 => {
                let jh = std::thread::spawn(move || intermediary(cin_rx, cout_tx, consume, pad));
                cin_tx.send(carrier_msg).map_err(|e| Failure::new("chain:carrier-send-failed", e.to_string()))?;
                for _ in 0..hop.between {
                    tx_x.send(tagged(sent)).map_err(|e| Failure::new("chain:send-to-in-transit-receiver-failed", format!("hop {}: {}", i, e)))?;
                    sent += 1;
                }
                // the forwarding send of a multi-packet carrier needs a reader: receive below first
                let out = receive_forwarded(&cout_rx, i)?;
                let seen = match sandbox::watched(move || jh.join()) {
                    Ok(Ok(r)) => r.map_err(|e| Failure::new("chain:intermediary-failed", format!("hop {} (thread): {}", i, e)))?,
                    Ok(Err(_)) => fail!("chain:intermediary-panicked", "hop {}: intermediary thread panicked", i),
                    Err(h) => return Err(sandbox::hang_failure("chain:intermediary-hangs", &format!("hop {} (thread)", i), h)),
                };
                holder_rx = Some(out.0);
                travelled_tx = out.1;
                drop(cin_tx);
                consumed.extend(seen);
                // `between` traffic may also go through the sender that travelled
                if hop.via_travelled {
                    travelled_tx.send(tagged(sent)).map_err(|e| Failure::new("chain:travelled-sender-failed", format!("hop {}: {}", i, e)))?;
                    sent += 1;
                }
                continue;
            },
            _ => {
                used_process = true;
                // forked intermediary: keeps only the two carrier ends it needs
                let child = sandbox::fork_child(|w| {
                    let r = intermediary(cin_rx, cout_tx, consume, pad);
                    match r {
                        Ok(seen) => {
                            let _ = w.write_all(serde_json::to_string(&seen).unwrap().as_bytes());
                            0
                        },
                        Err(e) => {
                            let _ = w.write_all(format!("\"{}\"", e.replace('"', "'")).as_bytes());
                            1
                        },
                    }
                });
                // parent: the child has its own copies of cin_rx / cout_tx; ours were moved into the
                // closure and are dropped when it returns here (fork_child runs it only in the child)
                cin_tx.send(carrier_msg).map_err(|e| Failure::new("chain:carrier-send-failed", e.to_string()))?;
                for _ in 0..hop.between {
                    tx_x.send(tagged(sent)).map_err(|e| Failure::new("chain:send-to-in-transit-receiver-failed", format!("hop {}: {}", i, e)))?;
                    sent += 1;
                }
                let out = receive_forwarded(&cout_rx, i)?;
                let (end, buf) = child.wait(Duration::from_secs(sandbox::watchdog_secs()));
                match end {
                    ChildEnd::Exited(0) => {},
                    ChildEnd::TimedOut => return Err(Failure::inconclusive(format!("hop {}: forked intermediary did not finish", i))),
                    other => fail!("chain:intermediary-failed", "hop {} (process): ended {:?}: {}", i, other, String::from_utf8_lossy(&buf)),
                }
                let seen: Vec<u32> = serde_json::from_slice(&buf).map_err(|e| Failure::inconclusive(format!("bad report from intermediary: {}", e)))?;
                holder_rx = Some(out.0);
                travelled_tx = out.1;
                consumed.extend(seen);
                if hop.via_travelled {
                    travelled_tx.send(tagged(sent)).map_err(|e| Failure::new("chain:travelled-sender-failed", format!("hop {}: {}", i, e)))?;
                    sent += 1;
                }
                continue;
            },
        };
        // same-thread hop: take the forwarded endpoints
        let out = receive_forwarded(&cout_rx, i)?;
        holder_rx = Some(out.0);
        travelled_tx = out.1;
        consumed.extend(seen);
        if hop.via_travelled {
            travelled_tx.send(tagged(sent)).map_err(|e| Failure::new("chain:travelled-sender-failed", format!("hop {}: {}", i, e)))?;
            sent += 1;
        }
    }
    // The final holder starts its blocking receive loop *before* the last messages are sent: it
    // really has to block on an empty, connected channel in between.
    let rx = holder_rx.take().unwrap();
    let drain = std::thread::spawn(move || {
        let mut v = vec![];
        loop {
            match rx.recv() {
                Ok(n) => v.push(seq_of(&n)),
                Err(IpcError::Disconnected) => return (v, None),
                Err(e) => return (v, Some(format!("{:?}", e))),
            }
        }
    });
    for _ in 0..after {
        sandbox::spin(30_000);
        // (a failing receiver may already have gone away: the verdict comes from the drain result)
        let _ = tx_x.send(tagged(sent));
        sent += 1;
    }
    drop(tx_x);
    drop(travelled_tx);
    // everything not consumed by intermediaries, then Disconnected
    let fin = sandbox::watched(move || drain.join().unwrap_or((vec![], Some("the draining thread panicked".into()))));
    let (rest, err) = match fin {
        Ok(x) => x,
        Err(h) => return Err(sandbox::hang_failure("chain:final-drain-hangs", "draining the transferred receiver after all senders were dropped", h)),
    };
    ensure!(err.is_none(), "chain:final-receive-error", "{:?}", err);
    let mut all = consumed.clone();
    for r in rest {
        all.push(r.map_err(|e| Failure::new("chain:message-corrupt", e))?);
    }
    let want: Vec<u32> = (0..sent).collect();
    ensure!(all == want, "chain:backlog-differs", "sent 0..{} in order, but intermediaries+final holder received {:?}", sent, all);
    let nt = hops.len() >= 2 && backlog > 0;
    let class = format!("chain/{}hops{}{}", hops.len(), if backlog > 0 { "+backlog" } else { "" }, if used_process { "+process" } else { "" });
    Ok(Outcome::new(nt, class).with("chain_messages", sent as u64).with("chain_hops", hops.len() as u64))
}

fn receive_forwarded(cout_rx: &IpcReceiver<Node>, hop: usize) -> Result<(IpcReceiver<Node>, IpcSender<Node>), Failure> {
    // the forwarding intermediary may still be running: wait with a generous timeout, polling
    let t0 = std::time::Instant::now();
    let got = loop {
        match cout_rx.try_recv_timeout(Duration::from_millis(200)) {
            Ok(v) => break v,
            Err(TryRecvError::Empty) => {
                if t0.elapsed() > Duration::from_secs(sandbox::watchdog_secs()) {
                    return Err(Failure::inconclusive(format!("hop {}: forwarded receiver did not arrive in time", hop)));
                }
            },
            Err(TryRecvError::IpcError(e)) => return Err(Failure::new("chain:forward-lost", format!("hop {}: the forwarded receiver never arrived: {:?}", hop, e))),
        }
    };
    let Node::Pair(a, _) = got else { return Err(Failure::new("chain:forward-shape", "forwarded message has the wrong shape")) };
    let Node::Pair(rxn, txn) = *a else { return Err(Failure::new("chain:forward-shape", "forwarded message has the wrong shape")) };
    match (*rxn, *txn) {
        (Node::Rx(rx), Node::Tx(tx)) => Ok((rx, tx)),
        _ => Err(Failure::new("chain:forward-position", "forwarded endpoints arrived in the wrong positions")),
    }
}
