//! C05 - shared-memory regions arrive with identical contents.
//!
//! Domain: region lengths enumerated around 0, 1, page size +/-1, 2 pages +/-1 and log-uniform up to
//! the tier maximum; contents from a seeded stream or `from_byte(b, n)`; 1..8 regions per message
//! in generated order mixed with data; each cloned 0..3 times before sending (a clone, not the
//! original, may be the one that is sent); receiver in the same process or in a forked child (which
//! recomputes the checksums and reports them over a pipe); after receipt the sender's copies and the
//! carrying channel are dropped and the received regions are read again; regions are re-sent onward
//! (second hop).
//! Oracle: content and length equality at creation, in every clone, after receipt, after the drops
//! and after the second hop; order of regions preserved.

use crate::engine::{Ctx, Failure, Outcome, Prop};
use crate::node::{self, Node};
use crate::payload;
use crate::sandbox::{self, ChildEnd};
use crate::{ensure, fail};
use ipc_channel::ipc::{self, IpcSharedMemory};
use proptest::prelude::*;
use serde::{Deserialize, Serialize};
use std::io::Write;
use std::time::Duration;

pub struct C05;

#[derive(Clone, Debug, Serialize, Deserialize)]
pub struct Region {
    pub len: u32,
    pub seed: u64,
    pub fill: Option<u8>,
    pub clones: u8,
    /// which copy is sent: 0 = original, k = k-th clone
    pub send_copy: u8,
    /// (not for the first region) same contents as an earlier region of the message: length, seed
    /// and fill are taken from region `same_as % i`
    #[serde(default)]
    pub same_as: Option<u8>,
    /// with `same_as`: not merely equal contents but the very same region, referenced twice
    #[serde(default)]
    pub same_object: bool,
}

#[derive(Clone, Debug, Serialize, Deserialize)]
pub struct Case {
    pub regions: Vec<Region>,
    /// data items interleaved before region i (bytes of padding)
    pub pads: Vec<u16>,
    pub in_child: bool,
    pub second_hop: bool,
    /// inline data so large that the carrying message needs several packets
    #[serde(default)]
    pub multi_packet: bool,
    /// >= 2: the first look at the received regions is taken by this many threads at once
    #[serde(default)]
    pub threads: u8,
}

fn page() -> u32 {
    unsafe { libc::sysconf(libc::_SC_PAGESIZE) as u32 }
}

fn expected(r: &Region) -> Vec<u8> {
    node::region_bytes(r.len, r.seed, r.fill)
}

fn region_strategy(max_exp: u32) -> BoxedStrategy<Region> {
    let p = page();
    let len = prop_oneof![
        3 => prop_oneof![Just(0u32), Just(1), Just(2), Just(p - 1), Just(p), Just(p + 1), Just(2 * p - 1), Just(2 * p), Just(2 * p + 1)],
        2 => 0u32..3 * p,
        2 => (0u32..=max_exp, any::<u32>()).prop_map(|(e, m)| {
            let base = 1u64 << e;
            (base + ((m as u64 * base) >> 32)) as u32
        }),
    ];
    (len, any::<u64>(), proptest::option::weighted(0.35, any::<u8>()), 0u8..=3, 0u8..=3, proptest::option::weighted(0.15, any::<u8>()), any::<bool>())
        .prop_map(|(len, seed, fill, clones, send_copy, same_as, same_object)| Region { len, seed, fill, clones, send_copy, same_as, same_object })
        .boxed()
}

impl Prop for C05 {
    type Case = Case;
    const ID: &'static str = "C05";

    fn setup(ctx: &Ctx) {
        crate::props::c01::measure_capacities_for(ctx);
    }

    fn cases(ctx: &Ctx) -> u32 {
        ctx.param_u64("cases", ctx.pick(2000, 30000) as u64) as u32
    }

    fn strategy(ctx: &Ctx) -> BoxedStrategy<Case> {
        let max_exp = ctx.param_u64("max_exp", if ctx.thorough { 23 } else { 22 }) as u32;
        (proptest::collection::vec(region_strategy(max_exp), 1..=8), proptest::collection::vec(0u16..600, 9), any::<bool>(), any::<bool>(), proptest::bool::weighted(0.3), prop_oneof![3 => Just(0u8), 2 => 2u8..=6])
            .prop_map(|(regions, pads, in_child, second_hop, multi_packet, threads)| Case { regions, pads, in_child, second_hop, multi_packet, threads })
            .boxed()
    }

    fn enumerated(ctx: &Ctx) -> Vec<Case> {
        let p = page();
        let mut v = vec![];
        // ... and beyond the huge-page size, not a multiple of it
        let mut lens = vec![0u32, 1, 2, p - 1, p, p + 1, 2 * p - 1, 2 * p, 2 * p + 1, 3 * p + 7, (2 << 20) + 1, (3 << 20) - 1, (4 << 20) + p + 1];
        if ctx.thorough && ctx.param("big") == Some("1") {
            lens.extend([(8 << 20) + 1, 32 << 20]);
        }
        for (i, &len) in lens.iter().enumerate() {
            for fill in [None, Some(0u8), Some(0xA5)] {
                for in_child in [false, true] {
                    v.push(Case { regions: vec![Region { len, seed: i as u64 + 1, fill, clones: (i % 3) as u8, send_copy: (i % 2) as u8, same_as: None, same_object: false }], pads: vec![0; 9], in_child, second_hop: i % 2 == 0, multi_packet: i % 3 == 1, threads: if i % 4 == 3 { 4 } else { 0 } });
                }
            }
        }
        // all boundary lengths together in one message, in order
        v.push(Case { regions: lens.iter().take(8).enumerate() /* the small boundary lengths */.map(|(i, &len)| Region { len, seed: 77 + i as u64, fill: None, clones: 1, send_copy: 1, same_as: None, same_object: false }).collect(), pads: vec![3; 9], in_child: true, second_hop: true, multi_packet: true, threads: 0 });
        // equal contents twice in one message: as two regions, and as one region referenced twice
        for same_object in [false, true] {
            for in_child in [false, true] {
                for (len, fill) in [(p, Some(0u8)), (5000, None), (1, Some(7))] {
                    let r = |same_as| Region { len, seed: 5, fill, clones: 0, send_copy: 0, same_as, same_object };
                    v.push(Case { regions: vec![r(None), r(Some(0)), Region { len: 10, seed: 6, fill: None, clones: 0, send_copy: 0, same_as: None, same_object: false }, r(Some(0))], pads: vec![1; 9], in_child, second_hop: true, multi_packet: false, threads: 0 });
                }
            }
        }
        v
    }

    fn exec(_ctx: &Ctx, case: &Case) -> Result<Outcome, Failure> {
        run(case)
    }
}

fn check(what: &str, i: usize, got: &[u8], want: &[u8]) -> Result<(), Failure> {
    if got.len() != want.len() {
        fail!("region:length-differs", "{}: region {} has {} bytes, expected {}", what, i, got.len(), want.len());
    }
    if got != want {
        fail!("region:content-differs", "{}: region {} ({} bytes) differs at byte {:?}", what, i, want.len(), payload::first_diff(got, want));
    }
    Ok(())
}

/// The first access to freshly received regions, from `threads` threads released together.
fn concurrent_first_look(regs: &[IpcSharedMemory], wants: &[Vec<u8>], threads: usize) -> Option<String> {
    let gate = std::sync::atomic::AtomicUsize::new(0);
    let bad = std::sync::Mutex::new(None);
    std::thread::scope(|sc| {
        let mut handles = vec![];
        for t in 0..threads {
            let (gate, bad) = (&gate, &bad);
            handles.push(sc.spawn(move || {
                gate.fetch_add(1, std::sync::atomic::Ordering::SeqCst);
                while gate.load(std::sync::atomic::Ordering::SeqCst) < threads {
                    std::hint::spin_loop();
                }
                for (i, r) in regs.iter().enumerate() {
                    if i < wants.len() && &r[..] != &wants[i][..] {
                        let mut b = bad.lock().unwrap();
                        if b.is_none() {
                            *b = Some(format!("first look from {} threads at once (thread {}): region {}: {} bytes (hash {:x}) instead of {} bytes (hash {:x})", threads, t, i, r.len(), payload::fnv64(r), wants[i].len(), payload::fnv64(&wants[i])));
                        }
                    }
                }
            }));
        }
        // join every thread for real (pthread_join): the scope alone only waits until the closures
        // have returned, and a thread that is still on its way out while this process forks its
        // next receiver leaves the child with locks nobody will ever release
        for h in handles {
            let _ = h.join();
        }
    });
    bad.into_inner().unwrap()
}

fn receive(rx: &ipc::IpcReceiver<Node>) -> Result<Vec<IpcSharedMemory>, String> {
    let v = rx.recv().map_err(|e| format!("{:?}", e))?;
    let Node::List(items) = v else { return Err("not a list".into()) };
    let mut regs = vec![];
    let mut items = items;
    if items.len() >= 2 && matches!(items[1], Node::U32(0xe0d)) && matches!(items[0], Node::Bytes(_)) {
        if let Node::Bytes(b) = &items[0] {
            if b.len() > 700 && payload::fnv64(b) != payload::fnv64(&payload::stream(0xb16, b.len())) {
                return Err("the large inline data item arrived altered".into());
            }
        }
        items.drain(0..2);
    }
    for (k, it) in items.into_iter().enumerate() {
        match it {
            Node::Shm(r) if k % 2 == 1 => regs.push(r),
            Node::Bytes(_) if k % 2 == 0 => {},
            Node::U32(0xe0d) => {},
            other => return Err(format!("item {} arrived as {}", k, &node::rendered(&other)[..20.min(node::rendered(&other).len())])),
        }
    }
    Ok(regs)
}

fn run(case: &Case) -> Result<Outcome, Failure> {
    let in_child = case.in_child && !cfg!(feature = "inproc");
    // resolve "same contents as an earlier region"
    let mut regions: Vec<Region> = vec![];
    for (i, r) in case.regions.iter().enumerate() {
        let mut r = r.clone();
        match r.same_as {
            Some(j) if i > 0 => {
                let j = j as usize % i;
                r.same_as = Some(j as u8);
                r.len = regions[j].len;
                r.seed = regions[j].seed;
                r.fill = regions[j].fill;
            },
            _ => r.same_as = None,
        }
        regions.push(r);
    }
    let threads = if case.threads >= 2 { case.threads.min(8) as usize } else { 0 };
    let wants: Vec<Vec<u8>> = regions.iter().map(expected).collect();
    let n = case.regions.len();
    let (tx, rx) = ipc::channel::<Node>().map_err(|e| Failure::inconclusive(e.to_string()))?;
    let (tx2, rx2) = ipc::channel::<Node>().map_err(|e| Failure::inconclusive(e.to_string()))?;

    // A forked receiver is started before any region exists, so that it never holds a copy of the
    // sender's handles: it receives, waits for "the sender dropped everything", re-reads, reports.
    let mut child = None;
    let mut rx_opt = Some(rx);
    if in_child {
        sandbox::wait_until_single_threaded(Duration::from_secs(2));
        let rx = rx_opt.take().unwrap();
        let wants_c = wants.clone();
        let (tx_child_copy, tx2_child_copy) = (tx.clone(), tx2.clone());
        child = Some(sandbox::fork_child(move |w| {
            // the child's inherited copies of the senders must go, or it could never see the
            // channel close (the parent's own handles are separate objects)
            drop(tx_child_copy);
            drop(tx2_child_copy);
            let regs = match receive(&rx) {
                Ok(r) => r,
                Err(e) => {
                    let _ = w.write_all(e.as_bytes());
                    return 1;
                },
            };
            let mut report = String::new();
            if threads >= 2 {
                if let Some(e) = concurrent_first_look(&regs, &wants_c, threads) {
                    report = e;
                }
            }
            let mut verify = |phase: &str, regs: &[IpcSharedMemory]| {
                if regs.len() != wants_c.len() && report.is_empty() {
                    report = format!("{}: {} regions arrived, {} sent", phase, regs.len(), wants_c.len());
                }
                for (i, r) in regs.iter().enumerate() {
                    if report.is_empty() && i < wants_c.len() && &r[..] != &wants_c[i][..] {
                        report = format!("{}: region {}: {} bytes arrived (hash {:x}), {} bytes sent (hash {:x}), first difference {:?}", phase, i, r.len(), payload::fnv64(r), wants_c[i].len(), payload::fnv64(&wants_c[i]), payload::first_diff(r, &wants_c[i]));
                    }
                }
            };
            verify("after receipt in the forked process", &regs);
            // second message: the sender has dropped its copies
            match rx.recv() {
                Ok(Node::U32(0xd0e)) => {},
                other => {
                    let _ = w.write_all(format!("no drop notice: {:?}", other.map(|n| node::rendered(&n))).as_bytes());
                    return 1;
                },
            }
            verify("after the sender dropped its copies (forked process)", &regs);
            let _ = w.write_all(report.as_bytes());
            if report.is_empty() {
                0
            } else {
                2
            }
        }));
    }

    // creation + clones
    let mut originals = vec![];
    let mut to_send = vec![];
    let mut extra_clones = vec![];
    for (i, r) in regions.iter().enumerate() {
        let orig = match r.same_as {
            Some(j) if r.same_object => IpcSharedMemory::clone(&originals[j as usize]),
            _ => node::make_region(r.len, r.seed, r.fill),
        };
        check("at creation", i, &orig, &wants[i])?;
        let mut clones = vec![];
        for _ in 0..r.clones {
            let c = orig.clone();
            check("clone", i, &c, &wants[i])?;
            clones.push(c);
        }
        if let Some(c) = clones.first() {
            let cc = c.clone();
            check("clone of a clone", i, &cc, &wants[i])?;
            extra_clones.push(cc);
        }
        let k = r.send_copy as usize;
        let send = if k == 0 || clones.is_empty() { orig.clone() } else { clones[(k - 1) % clones.len()].clone() };
        to_send.push(send);
        originals.push(orig);
        extra_clones.extend(clones);
    }
    let mut items = vec![];
    for (i, reg) in to_send.into_iter().enumerate() {
        items.push(Node::Bytes(payload::stream(i as u64, case.pads[i % case.pads.len()] as usize)));
        items.push(Node::Shm(reg));
    }
    if case.multi_packet {
        // the kernel buffers hold a few hundred KiB: with small reported buffers a 3-packet message
        // never blocks the sender; with the real size a message just beyond one packet does not
        // either (the first fragment fits the channel's buffer, the rest the dedicated socket's)
        let (f1, f) = crate::props::c01::capacities();
        let n = if f1 <= 16384 { f1 + 2 * f + 7 } else { f1 + 1000 };
        items.insert(0, Node::Bytes(payload::stream(0xb16, n)));
        items.insert(1, Node::U32(0xe0d));
    }
    items.push(Node::U32(0xe0d));
    let sent = tx.send(Node::List(items));
    ensure!(sent.is_ok(), "region:send-failed", "sending {} regions failed: {:?}", n, sent.map_err(|e| e.to_string()));

    if let Some(child) = child {
        drop(originals);
        drop(extra_clones);
        let _pressure: Vec<IpcSharedMemory> = regions.iter().map(|r| node::make_region(r.len, r.seed ^ 0x5a5a_5a5a, r.fill.map(|b| !b))).collect();
        let sent = tx.send(Node::U32(0xd0e));
        ensure!(sent.is_ok(), "region:send-failed", "drop notice failed: {:?}", sent.map_err(|e| e.to_string()));
        drop(tx);
        let (end, buf) = child.wait(Duration::from_secs(sandbox::watchdog_secs() * 2));
        return match end {
            ChildEnd::Exited(0) => Ok(classify(case, true)),
            ChildEnd::Exited(2) => fail!("region:content-differs", "{}", String::from_utf8_lossy(&buf)),
            ChildEnd::Exited(1) => fail!("region:receive-failed", "forked receiver: {}", String::from_utf8_lossy(&buf)),
            ChildEnd::TimedOut => Err(sandbox::child_timeout_failure("region:receive-hangs", "the forked receiver did not finish", &buf)),
            other => fail!("region:receiver-died", "the forked receiver ended {:?}: {}", other, String::from_utf8_lossy(&buf)),
        };
    }

    // ---- same process ----------------------------------------------------------------------------------
    let rx = rx_opt.take().unwrap();
    let regs = match sandbox::watched(move || receive(&rx)) {
        Ok(Ok(r)) => r,
        Ok(Err(e)) => fail!("region:receive-failed", "{}", e),
        Err(h) => return Err(sandbox::hang_failure("region:receive-hangs", "receiving a message with regions", h)),
    };
    ensure!(regs.len() == n, "region:count-differs", "{} regions sent, {} arrived", n, regs.len());
    if threads >= 2 {
        if let Some(e) = concurrent_first_look(&regs, &wants, threads) {
            fail!("region:content-differs", "{}", e);
        }
    }
    for (i, r) in regs.iter().enumerate() {
        check("after receipt", i, r, &wants[i])?;
    }
    drop(originals);
    drop(extra_clones);
    drop(tx);
    // new regions of the very same lengths, other contents, created by the thread that just dropped
    // the originals: a backing object that is recycled instead of released would be overwritten
    let _pressure: Vec<IpcSharedMemory> = regions.iter().map(|r| node::make_region(r.len, r.seed ^ 0x5a5a_5a5a, r.fill.map(|b| !b))).collect();
    for (i, r) in regs.iter().enumerate() {
        check("after the sender's copies and the channel were dropped", i, r, &wants[i])?;
    }
    if case.second_hop {
        let fwd: Vec<Node> = regs.iter().rev().map(|r| Node::Shm(r.clone())).collect();
        let sent = tx2.send(Node::List(fwd));
        ensure!(sent.is_ok(), "region:send-failed", "second hop failed: {:?}", sent.map_err(|e| e.to_string()));
        drop(regs);
        let got = rx2.recv().map_err(|e| Failure::new("region:receive-failed", format!("second hop: {:?}", e)))?;
        let Node::List(v) = got else { fail!("region:receive-failed", "second hop: not a list") };
        ensure!(v.len() == n, "region:count-differs", "second hop: {} regions sent, {} arrived", n, v.len());
        for (k, it) in v.into_iter().enumerate() {
            let i = n - 1 - k;
            match it {
                Node::Shm(r) => check("after the second hop", i, &r, &wants[i])?,
                _ => fail!("region:receive-failed", "second hop: item {} is not a region", k),
            }
        }
    }
    Ok(classify(case, false))
}

fn classify(case: &Case, in_child: bool) -> Outcome {
    let p = page();
    let odd = case.regions.iter().any(|r| r.len % p != 0);
    let cloned_sent = case.regions.iter().any(|r| r.clones > 0 && r.send_copy > 0);
    let nt = odd || case.regions.len() >= 2 || cloned_sent;
    let zero = case.regions.iter().any(|r| r.len == 0);
    let class = format!(
        "{}{}{}{}{}{}",
        if case.regions.len() >= 2 { "multi-region" } else { "one-region" },
        if odd { "+odd-length" } else { "" },
        if zero { "+zero-length" } else { "" },
        if cloned_sent { "+clone-sent" } else { "" },
        if in_child { "+forked-receiver" } else { "" },
        if case.second_hop { "+second-hop" } else { "" }
    )
    .replace("one-region", if case.multi_packet { "multi-packet-message/one-region" } else { "one-region" })
    .replace("multi-region", if case.multi_packet { "multi-packet-message/multi-region" } else { "multi-region" });
    let equal = case.regions.iter().enumerate().any(|(i, r)| i > 0 && r.same_as.is_some());
    let same_obj = case.regions.iter().enumerate().any(|(i, r)| i > 0 && r.same_as.is_some() && r.same_object);
    let class = format!("{}{}{}", class, if same_obj { "+same-region-twice" } else if equal { "+equal-contents" } else { "" }, if case.threads >= 2 { "+concurrent-first-look" } else { "" });
    Outcome::new(nt, class).with("regions", case.regions.len() as u64)
}
