//! C06 - a receiver set reports every event of every member exactly once.
//!
//! Regime D (deterministic): one thread interleaves `send`, `add`, sender drops and `select` in a
//! generated order - reaches on purpose "more ready members than the event buffer", "queued before
//! add", "closure and data in one batch".  `select` is only called while the model says an event of
//! an added member is pending, so a call that does not return is a lost event.
//! Regime F (free-running): 1..8 sender threads run the members' scripts with generated jitter
//! while the selecting thread adds the remaining members between selects.
//! In both regimes EINTR is injected into generated `epoll_wait` calls (OS builds).
//! Oracle (invariant over the concatenated select results): every MessageReceived(id, m) carries the
//! id `add` returned for the member named in m's tag and that member's next sequence number, m is
//! whole; every member gets exactly one ChannelClosed, after its last message and only after its
//! last sender's drop had started; ids of live members are pairwise distinct; select returns while
//! an event is pending.

use crate::engine::{Ctx, Failure, Outcome, Prop};
use crate::interpose::{self as ip, stamp};
use crate::node::Node;
use crate::payload;
use crate::props::c01;
use crate::sandbox;
use crate::{ensure, fail};
use ipc_channel::ipc::{self, IpcReceiver, IpcReceiverSet, IpcSelectionResult, IpcSender};
use proptest::prelude::*;
use serde::{Deserialize, Serialize};
use std::sync::atomic::{AtomicU64, Ordering::SeqCst};
use std::sync::Arc;

pub struct C06;

#[derive(Clone, Debug, Serialize, Deserialize)]
pub struct Member {
    /// size class per message: 0 small, k>0: k+1 packets
    pub msgs: Vec<u8>,
    /// the member is added after this many of its messages were sent (0 = before traffic)
    pub add_after: u8,
    /// the sender is dropped after the last message (else at the very end)
    pub drop_early: bool,
    pub thread: u8,
}

#[derive(Clone, Debug, Serialize, Deserialize)]
pub struct Case {
    pub members: Vec<Member>,
    /// true: deterministic single-thread interleaving; false: free-running sender threads
    pub deterministic: bool,
    pub shuffle: u64,
    /// in regime D: a select is attempted after every `select_every` actions (0 = only at the end)
    pub select_every: u8,
    pub jitter: u16,
    pub eintr_mask: u64,
}

fn member_strategy(max_msgs: usize) -> BoxedStrategy<Member> {
    (proptest::collection::vec(prop_oneof![5 => Just(0u8), 1 => 1u8..4], 0..max_msgs), 0u8..8, any::<bool>(), 0u8..8)
        .prop_map(|(msgs, add_after, drop_early, thread)| Member { msgs, add_after, drop_early, thread })
        .boxed()
}

/// Members join through `add` or through the untyped `add_opaque` (the entry point the router
/// and the async layer use): bits of the case's shuffle word choose "all typed", "all opaque" or
/// "alternating", so sets consisting of opaque members only occur.
fn add_member(set: &mut IpcReceiverSet, r: IpcReceiver<Node>, i: usize, shuffle: u64) -> Result<u64, std::io::Error> {
    let opaque = match (shuffle >> 7) % 3 {
        0 => false,
        1 => true,
        _ => i % 2 == 0,
    };
    if opaque {
        set.add_opaque(r.to_opaque())
    } else {
        set.add(r)
    }
}

fn msg_len(class: u8) -> usize {
    let (f1, f) = c01::capacities();
    match class {
        0 => 48,
        k => (f1 + (k as usize - 1) * f + 100).min(200_000),
    }
}

fn message(member: u32, seq: u32, class: u8) -> Node {
    Node::Tagged { chan: member, sender: 0, seq, body: payload::make(member, 0, seq, msg_len(class), (member as u64) << 20 | seq as u64 | 1) }
}

fn decode(n: Node) -> Result<(u32, u32), String> {
    match n {
        Node::Tagged { chan, seq, body, .. } => {
            let p = payload::parse(&body)?;
            if p.chan != chan || p.seq != seq {
                return Err(format!("tag ({},{}) but body of ({},{})", chan, seq, p.chan, p.seq));
            }
            Ok((chan, seq))
        },
        other => Err(format!("unexpected value {}", crate::node::rendered(&other))),
    }
}

impl Prop for C06 {
    type Case = Case;
    const ID: &'static str = "C06";
    const SCHEDULE_DEPENDENT: bool = true;

    fn setup(ctx: &Ctx) {
        c01::measure_capacities_for(ctx);
    }

    fn cases(ctx: &Ctx) -> u32 {
        ctx.param_u64("cases", ctx.pick(2000, 40000) as u64) as u32
    }

    fn strategy(ctx: &Ctx) -> BoxedStrategy<Case> {
        let max_members = if ctx.thorough { 64 } else { 24 };
        (
            proptest::collection::vec(prop_oneof![5 => member_strategy(30), 1 => member_strategy(90)], 1..=max_members),
            any::<bool>(),
            any::<u64>(),
            prop_oneof![Just(0u8), 1u8..12],
            0u16..2000,
            prop_oneof![3 => Just(0u64), 2 => any::<u64>(), 2 => (any::<u64>(), any::<u64>()).prop_map(|(a, b)| a & b)],
        )
            .prop_map(|(mut members, deterministic, shuffle, select_every, jitter, eintr_mask)| {
                // kernel budget for unread traffic: <= 26 multi-packet first fragments per socket is
                // safe; keep each member's script within 30 messages of which <= 6 multi-packet
                for m in members.iter_mut() {
                    let mut multi = 0;
                    for c in m.msgs.iter_mut() {
                        if *c > 0 {
                            multi += 1;
                            if multi > 6 {
                                *c = 0;
                            }
                        }
                    }
                }
                Case { members, deterministic, shuffle, select_every, jitter, eintr_mask }
            })
            .boxed()
    }

    fn exec(_ctx: &Ctx, case: &Case) -> Result<Outcome, Failure> {
        let r = if case.deterministic { regime_d(case) } else { regime_f(case) };
        ip::arm_eintr(0);
        r
    }
}

/// State of the history oracle.
struct Oracle {
    n: usize,
    ids: Vec<Option<u64>>,
    next_seq: Vec<u32>,
    total: Vec<u32>,
    closed: Vec<bool>,
    /// stamp at which the drop of the member's last sender started (0 = not yet)
    drop_started: Vec<Arc<AtomicU64>>,
    events: u64,
    max_batch: usize,
}

impl Oracle {
    fn new(case: &Case) -> Oracle {
        let n = case.members.len();
        Oracle {
            n,
            ids: vec![None; n],
            next_seq: vec![0; n],
            total: case.members.iter().map(|m| m.msgs.len() as u32).collect(),
            closed: vec![false; n],
            drop_started: (0..n).map(|_| Arc::new(AtomicU64::new(0))).collect(),
            events: 0,
            max_batch: 0,
        }
    }

    fn added(&mut self, member: usize, id: u64) -> Result<(), Failure> {
        for (j, other) in self.ids.iter().enumerate() {
            if *other == Some(id) && !self.closed[j] {
                fail!("set:duplicate-id", "add returned id {} for member {} while live member {} has the same id", id, member, j);
            }
        }
        self.ids[member] = Some(id);
        Ok(())
    }

    fn batch(&mut self, results: Vec<IpcSelectionResult>, returned_at: u64) -> Result<(), Failure> {
        self.max_batch = self.max_batch.max(results.len());
        for r in results {
            self.events += 1;
            match r {
                IpcSelectionResult::MessageReceived(id, m) => {
                    let v: Node = m.to().map_err(|e| Failure::new("set:undecodable", format!("message for id {} does not decode: {}", id, e)))?;
                    let (member, seq) = decode(v).map_err(|e| Failure::new("set:message-not-whole", e))?;
                    let member = member as usize;
                    ensure!(member < self.n, "set:unknown-member", "message names member {}", member);
                    ensure!(self.ids[member] == Some(id), "set:wrong-id", "message ({},{}) reported under id {} but add returned {:?} for that member", member, seq, id, self.ids[member]);
                    ensure!(!self.closed[member], "set:message-after-closed", "message ({},{}) reported after the member's ChannelClosed", member, seq);
                    ensure!(seq == self.next_seq[member], "set:order-or-duplicate", "member {}: expected message {} but select reported {}", member, self.next_seq[member], seq);
                    self.next_seq[member] += 1;
                },
                IpcSelectionResult::ChannelClosed(id) => {
                    let Some(member) = (0..self.n).find(|&j| self.ids[j] == Some(id) && !self.closed[j]) else {
                        fail!("set:closed-unknown-or-twice", "ChannelClosed for id {} which no live member has", id);
                    };
                    let ds = self.drop_started[member].load(SeqCst);
                    ensure!(ds != 0 && ds < returned_at, "set:false-closed", "member {} reported closed (select returned at stamp {}) although the drop of its sender had not started (stamp {})", member, returned_at, ds);
                    ensure!(self.next_seq[member] == self.total[member], "set:closed-before-backlog", "member {} reported closed after {} of {} messages", member, self.next_seq[member], self.total[member]);
                    self.closed[member] = true;
                },
            }
        }
        Ok(())
    }
}

fn select_watched(set: IpcReceiverSet, what: String) -> Result<(IpcReceiverSet, Vec<IpcSelectionResult>, u64), Failure> {
    let out = sandbox::watched(move || {
        let mut set = set;
        let r = set.select();
        let at = stamp();
        (set, r, at)
    });
    match out {
        Ok((set, Ok(r), at)) => Ok((set, r, at)),
        Ok((_, Err(e), _)) => Err(Failure::new("set:select-error", format!("select failed: {}", e))),
        Err(h) => Err(sandbox::hang_failure("set:select-hangs", &what, h)),
    }
}

fn regime_d(case: &Case) -> Result<Outcome, Failure> {
    let n = case.members.len();
    let mut oracle = Oracle::new(case);
    let mut set = IpcReceiverSet::new().map_err(|e| Failure::inconclusive(e.to_string()))?;
    let mut txs: Vec<Option<IpcSender<Node>>> = vec![];
    let mut rxs: Vec<Option<IpcReceiver<Node>>> = vec![];
    for _ in 0..n {
        let (t, r) = ipc::channel::<Node>().map_err(|e| Failure::inconclusive(e.to_string()))?;
        txs.push(Some(t));
        rxs.push(Some(r));
    }
    // action list per member, merged by a seeded shuffle that keeps each member's own order
    #[derive(Clone, Copy, Debug)]
    enum Act {
        Send(usize, u32),
        Add(usize),
        Drop(usize),
    }
    let mut per: Vec<Vec<Act>> = vec![];
    for (i, m) in case.members.iter().enumerate() {
        let mut v = vec![];
        let add_at = (m.add_after as usize).min(m.msgs.len());
        for k in 0..m.msgs.len() {
            if k == add_at {
                v.push(Act::Add(i));
            }
            v.push(Act::Send(i, k as u32));
        }
        if add_at >= m.msgs.len() {
            v.push(Act::Add(i));
        }
        if m.drop_early {
            v.push(Act::Drop(i));
        }
        per.push(v);
    }
    let mut slots: Vec<usize> = per.iter().enumerate().flat_map(|(i, v)| std::iter::repeat(i).take(v.len())).collect();
    let mut x = case.shuffle | 1;
    for i in (1..slots.len()).rev() {
        x ^= x << 13;
        x ^= x >> 7;
        x ^= x << 17;
        slots.swap(i, (x % (i as u64 + 1)) as usize);
    }
    let mut cursor = vec![0usize; n];
    // model: queued messages and pending closure per added member
    let mut sent = vec![0u32; n];
    let mut added = vec![false; n];
    let mut dropped = vec![false; n];
    let mut ready_peak = 0usize;
    let mut adds_after_traffic = 0;
    let mut multi = false;
    ip::arm_eintr(if cfg!(feature = "inproc") { 0 } else { case.eintr_mask });
    let mut actions_done = 0usize;
    let pending = |oracle: &Oracle, added: &Vec<bool>, sent: &Vec<u32>, dropped: &Vec<bool>| -> (usize, usize) {
        // (events pending on added members, members with something pending)
        let mut ev = 0;
        let mut mem = 0;
        for i in 0..added.len() {
            if added[i] && !oracle.closed[i] {
                let q = (sent[i] - oracle.next_seq[i]) as usize + (dropped[i] as usize);
                ev += q;
                if q > 0 {
                    mem += 1;
                }
            }
        }
        (ev, mem)
    };
    for (step, &i) in slots.iter().enumerate() {
        let act = per[i][cursor[i]];
        cursor[i] += 1;
        match act {
            Act::Send(i, k) => {
                let class = case.members[i].msgs[k as usize];
                multi |= class > 0;
                let r = txs[i].as_ref().unwrap().send(message(i as u32, k, class));
                ensure!(r.is_ok(), "set:send-failed", "send to member {} failed: {:?}", i, r.map_err(|e| e.to_string()));
                sent[i] += 1;
            },
            Act::Add(i) => {
                if sent[i] > 0 {
                    adds_after_traffic += 1;
                }
                let id = add_member(&mut set, rxs[i].take().unwrap(), i, case.shuffle).map_err(|e| Failure::new("set:add-failed", e.to_string()))?;
                oracle.added(i, id)?;
                added[i] = true;
            },
            Act::Drop(i) => {
                oracle.drop_started[i].store(stamp(), SeqCst);
                txs[i] = None;
                dropped[i] = true;
            },
        }
        actions_done += 1;
        let last = step + 1 == slots.len();
        if last {
            // end of the script: every remaining sender goes away
            for j in 0..n {
                if !dropped[j] {
                    oracle.drop_started[j].store(stamp(), SeqCst);
                    txs[j] = None;
                    dropped[j] = true;
                }
            }
        }
        let do_select = last || (case.select_every > 0 && actions_done % case.select_every as usize == 0);
        if do_select {
            // select while the model says something is pending (until everything is collected at the end)
            loop {
                let (ev, mem) = pending(&oracle, &added, &sent, &dropped);
                ready_peak = ready_peak.max(mem);
                if ev == 0 {
                    break;
                }
                let before = oracle.events;
                let (s2, results, at) = select_watched(set, format!("select with {} event(s) of {} member(s) pending (regime D, step {})", ev, mem, step))?;
                set = s2;
                oracle.batch(results, at)?;
                if !last && oracle.events > before {
                    // one successful round per select point is enough mid-script
                    if case.shuffle & 1 == 0 {
                        break;
                    }
                }
            }
        }
    }
    for i in 0..n {
        ensure!(oracle.closed[i], "set:closure-missing", "member {} never got its ChannelClosed", i);
    }
    let injected = ip::EINTR_INJECTED.load(SeqCst);
    finish(case, &oracle, ready_peak, adds_after_traffic, multi, injected, "D")
}

fn finish(case: &Case, oracle: &Oracle, ready_peak: usize, adds_after_traffic: usize, multi: bool, injected: u32, regime: &str) -> Result<Outcome, Failure> {
    let small_too = case.members.iter().any(|m| m.msgs.iter().any(|c| *c == 0));
    let nt = ready_peak > 10 || (multi && small_too) || adds_after_traffic > 0 || injected > 0;
    let class = format!(
        "{}{}{}{}{}",
        regime,
        if ready_peak > 10 { "+>10-ready" } else { "" },
        if multi { "+multipacket" } else { "" },
        if adds_after_traffic > 0 { "+add-after-traffic" } else { "" },
        if injected > 0 { "+EINTR" } else { "" }
    );
    Ok(Outcome::new(nt, class)
        .with("members", case.members.len() as u64)
        .with("select_events", oracle.events)
        .with("eintr_injected", injected as u64)
        .with("largest_batch", oracle.max_batch as u64))
}

fn regime_f(case: &Case) -> Result<Outcome, Failure> {
    let n = case.members.len();
    let mut oracle = Oracle::new(case);
    let mut set = IpcReceiverSet::new().map_err(|e| Failure::inconclusive(e.to_string()))?;
    let mut rxs: Vec<Option<IpcReceiver<Node>>> = vec![];
    let mut by_thread: Vec<Vec<(usize, IpcSender<Node>)>> = (0..8).map(|_| vec![]).collect();
    for (i, m) in case.members.iter().enumerate() {
        let (t, r) = ipc::channel::<Node>().map_err(|e| Failure::inconclusive(e.to_string()))?;
        by_thread[(m.thread % 8) as usize].push((i, t));
        rxs.push(Some(r));
    }
    // members with add_after == 0 are added before any traffic
    let mut adds_after_traffic = 0;
    let mut to_add: Vec<usize> = vec![];
    for (i, m) in case.members.iter().enumerate() {
        if m.add_after == 0 {
            let id = add_member(&mut set, rxs[i].take().unwrap(), i, case.shuffle).map_err(|e| Failure::new("set:add-failed", e.to_string()))?;
            oracle.added(i, id)?;
        } else {
            to_add.push(i);
        }
    }
    ip::arm_eintr(if cfg!(feature = "inproc") { 0 } else { case.eintr_mask });
    let members = case.members.clone();
    let jitter = case.jitter;
    let mut handles = vec![];
    for (_ti, list) in by_thread.into_iter().enumerate() {
        if list.is_empty() {
            continue;
        }
        let members = members.clone();
        let drops: Vec<Arc<AtomicU64>> = list.iter().map(|(i, _)| oracle.drop_started[*i].clone()).collect();
        handles.push(std::thread::spawn(move || -> Result<(), String> {
            // round-robin over this thread's members
            let mut list: Vec<(usize, Option<IpcSender<Node>>)> = list.into_iter().map(|(i, t)| (i, Some(t))).collect();
            let maxlen = list.iter().map(|(i, _)| members[*i].msgs.len()).max().unwrap_or(0);
            for k in 0..=maxlen {
                for (li, (i, tx)) in list.iter_mut().enumerate() {
                    let m = &members[*i];
                    if k < m.msgs.len() {
                        sandbox::spin(jitter as u32);
                        tx.as_ref().unwrap().send(message(*i as u32, k as u32, m.msgs[k])).map_err(|e| format!("send to member {} failed: {}", i, e))?;
                    } else if k == m.msgs.len() && tx.is_some() && m.drop_early {
                        drops[li].store(stamp(), SeqCst);
                        *tx = None;
                    }
                }
            }
            for (li, (_, tx)) in list.iter_mut().enumerate() {
                if tx.is_some() {
                    drops[li].store(stamp(), SeqCst);
                    *tx = None;
                }
            }
            Ok(())
        }));
    }
    let multi = case.members.iter().any(|m| m.msgs.iter().any(|c| *c > 0));
    let mut ready_peak = 0;
    let mut rounds = 0u64;
    loop {
        let open_added = (0..n).filter(|&i| oracle.ids[i].is_some() && !oracle.closed[i]).count();
        // add a waiting member when nothing that is in the set can produce an event any more, or
        // at generated moments
        if !to_add.is_empty() && (open_added == 0 || rounds % (1 + (case.shuffle % 4)) == 0) {
            let i = to_add.remove(0);
            adds_after_traffic += 1;
            let id = add_member(&mut set, rxs[i].take().unwrap(), i, case.shuffle).map_err(|e| Failure::new("set:add-failed", e.to_string()))?;
            oracle.added(i, id)?;
            continue;
        }
        if open_added == 0 && to_add.is_empty() {
            break;
        }
        let (s2, results, at) = select_watched(set, format!("select with {} member(s) still open whose senders all finish and drop (regime F, round {})", open_added, rounds))?;
        set = s2;
        ready_peak = ready_peak.max(results.len());
        oracle.batch(results, at)?;
        rounds += 1;
        if rounds > 200_000 {
            fail!("set:no-progress", "select keeps returning without completing the members");
        }
    }
    for h in handles {
        match h.join() {
            Ok(Ok(())) => {},
            Ok(Err(e)) => fail!("set:send-failed", "{}", e),
            Err(_) => fail!("set:sender-panicked", "a sender thread panicked"),
        }
    }
    for i in 0..n {
        ensure!(oracle.closed[i], "set:closure-missing", "member {} never got its ChannelClosed", i);
    }
    let injected = ip::EINTR_INJECTED.load(SeqCst);
    finish(case, &oracle, ready_peak, adds_after_traffic, multi, injected, "F")
}
