//! C07 - router: each routed message reaches its handler once, in order; then it is freed.
//!
//! 1..32 routes are registered from 1..8 threads on a per-worker `RouterProxy` (never stopped here;
//! C17 stops routers) or on the global `ROUTER`.  Per route: kind (callback /
//! route_ipc_receiver_to_crossbeam_sender / ..._to_new_crossbeam_receiver), 0..50 messages of which
//! a generated prefix is queued *before* registration and the rest is sent while registrations and
//! other routes' traffic are in flight, small and multi-packet sizes, sender drop at the end.
//! Oracle: per route the handler log is exactly seq 0..n-1 in order, every logged payload carries
//! that route's tag (no other handler saw it), the callback's drop guard fires exactly once, after
//! the last message and after the sender drop started; crossbeam routes yield the same sequence and
//! then disconnect; completion is awaited under the hang rule.

use crate::engine::{Ctx, Failure, Outcome, Prop};
use crate::interpose::stamp;
use crate::node::Node;
use crate::payload;
use crate::props::c01;
use crate::sandbox;
use crate::{ensure, fail};
use ipc_channel::ipc::{self};
use ipc_channel::router::{RouterProxy, ROUTER};
use proptest::prelude::*;
use serde::{Deserialize, Serialize};
use std::sync::{Arc, Mutex, OnceLock};
use std::time::Duration;

pub struct C07;

#[derive(Clone, Debug, Serialize, Deserialize)]
pub struct Route {
    /// 0 callback, 1 to existing crossbeam sender, 2 to new crossbeam receiver
    pub kind: u8,
    /// size class per message: 0 small, k>0: k+1 packets
    pub msgs: Vec<u8>,
    /// how many of them are sent before the route is registered
    pub before: u8,
    pub thread: u8,
    pub jitter: u16,
}

#[derive(Clone, Debug, Serialize, Deserialize)]
pub struct Case {
    pub routes: Vec<Route>,
    pub global: bool,
}

static PROXY: OnceLock<RouterProxy> = OnceLock::new();

#[derive(Debug, Clone)]
enum Ev {
    Msg { route_in_tag: u32, seq: u32, #[allow(dead_code)] at: u64, whole: bool },
    Dropped { at: u64 },
}

struct Guard {
    log: Arc<Mutex<Vec<Ev>>>,
    done: crossbeam_channel::Sender<()>,
}
impl Drop for Guard {
    fn drop(&mut self) {
        self.log.lock().unwrap().push(Ev::Dropped { at: stamp() });
        let _ = self.done.send(());
    }
}

fn msg_len(class: u8) -> usize {
    let (f1, f) = c01::capacities();
    match class {
        0 => 56,
        k => (f1 + (k as usize - 1) * f + 64).min(150_000),
    }
}

fn message(route: u32, seq: u32, class: u8) -> Node {
    Node::Tagged { chan: route, sender: 0, seq, body: payload::make(route, 0, seq, msg_len(class), ((route as u64) << 16 | seq as u64) + 1) }
}

fn record(log: &Arc<Mutex<Vec<Ev>>>, n: Node) {
    let ev = match n {
        Node::Tagged { chan, seq, body, .. } => {
            let whole = matches!(payload::parse(&body), Ok(p) if p.chan == chan && p.seq == seq);
            Ev::Msg { route_in_tag: chan, seq, at: stamp(), whole }
        },
        _ => Ev::Msg { route_in_tag: u32::MAX, seq: u32::MAX, at: stamp(), whole: false },
    };
    log.lock().unwrap().push(ev);
}

impl Prop for C07 {
    type Case = Case;
    const ID: &'static str = "C07";
    const SCHEDULE_DEPENDENT: bool = true;

    fn setup(ctx: &Ctx) {
        c01::measure_capacities_for(ctx);
        let _ = PROXY.get_or_init(RouterProxy::new);
    }

    fn cases(ctx: &Ctx) -> u32 {
        ctx.param_u64("cases", ctx.pick(1500, 30000) as u64) as u32
    }

    fn strategy(_ctx: &Ctx) -> BoxedStrategy<Case> {
        let route = (0u8..3, proptest::collection::vec(prop_oneof![6 => Just(0u8), 1 => 1u8..4], 0..=50), any::<u8>(), 0u8..8, 0u16..1500).prop_map(|(kind, mut msgs, before, thread, jitter)| {
            let mut multi = 0;
            for c in msgs.iter_mut() {
                if *c > 0 {
                    multi += 1;
                    if multi > 6 {
                        *c = 0;
                    }
                }
            }
            let before = if msgs.is_empty() { 0 } else { before % (msgs.len() as u8 + 1) };
            Route { kind, msgs, before, thread, jitter }
        });
        (proptest::collection::vec(route, 1..=32), proptest::bool::weighted(0.25)).prop_map(|(routes, global)| Case { routes, global }).boxed()
    }

    fn exec(_ctx: &Ctx, case: &Case) -> Result<Outcome, Failure> {
        run(case)
    }
}

fn run(case: &Case) -> Result<Outcome, Failure> {
    let proxy: &'static RouterProxy = if case.global { &ROUTER } else { PROXY.get().expect("proxy") };
    let n = case.routes.len();
    let logs: Vec<Arc<Mutex<Vec<Ev>>>> = (0..n).map(|_| Arc::new(Mutex::new(vec![]))).collect();
    let drop_started: Vec<Arc<std::sync::atomic::AtomicU64>> = (0..n).map(|_| Default::default()).collect();
    // consumers of crossbeam routes
    let mut consumers: Vec<Option<crossbeam_channel::Receiver<Node>>> = (0..n).map(|_| None).collect();
    let mut done_rx: Vec<Option<crossbeam_channel::Receiver<()>>> = (0..n).map(|_| None).collect();
    // group routes by registering thread
    let mut by_thread: Vec<Vec<usize>> = (0..8).map(|_| vec![]).collect();
    for (i, r) in case.routes.iter().enumerate() {
        by_thread[(r.thread % 8) as usize].push(i);
    }
    let (cons_tx, cons_rx) = std::sync::mpsc::channel::<(usize, crossbeam_channel::Receiver<Node>)>();
    let mut handles = vec![];
    for list in by_thread.into_iter().filter(|l| !l.is_empty()) {
        let routes: Vec<(usize, Route)> = list.iter().map(|&i| (i, case.routes[i].clone())).collect();
        let logs_t: Vec<Arc<Mutex<Vec<Ev>>>> = list.iter().map(|&i| logs[i].clone()).collect();
        let drops_t: Vec<Arc<std::sync::atomic::AtomicU64>> = list.iter().map(|&i| drop_started[i].clone()).collect();
        let mut dones = vec![];
        for &i in &list {
            if case.routes[i].kind % 3 == 0 {
                let (dtx, drx) = crossbeam_channel::unbounded::<()>();
                done_rx[i] = Some(drx);
                dones.push(Some(dtx));
            } else {
                dones.push(None);
            }
        }
        let cons_tx = cons_tx.clone();
        handles.push(std::thread::spawn(move || -> Result<(), String> {
            let mut live: Vec<(usize, Route, ipc::IpcSender<Node>, u32)> = vec![];
            // phase 1: per route: prefix, then registration
            for (li, (i, r)) in routes.iter().enumerate() {
                let (tx, rx) = ipc::channel::<Node>().map_err(|e| e.to_string())?;
                for k in 0..r.before as usize {
                    tx.send(message(*i as u32, k as u32, r.msgs[k])).map_err(|e| format!("send before registration failed: {}", e))?;
                }
                match r.kind % 3 {
                    0 => {
                        let log = logs_t[li].clone();
                        let guard = Guard { log: log.clone(), done: dones[li].clone().unwrap() };
                        proxy.add_route(
                            rx.to_opaque(),
                            Box::new(move |m| {
                                let _ = &guard;
                                match m.to::<Node>() {
                                    Ok(v) => record(&log, v),
                                    Err(_) => log.lock().unwrap().push(Ev::Msg { route_in_tag: u32::MAX, seq: u32::MAX, at: stamp(), whole: false }),
                                }
                            }),
                        );
                    },
                    1 => {
                        // an existing crossbeam sender may be bounded and its consumer slow: the
                        // route must then wait, not drop (the consumer only starts reading after all
                        // registering threads have finished)
                        let (ctx_, crx) = if r.jitter % 3 == 0 { crossbeam_channel::bounded::<Node>(1 + (r.jitter as usize / 3) % 4) } else { crossbeam_channel::unbounded::<Node>() };
                        proxy.route_ipc_receiver_to_crossbeam_sender(rx, ctx_);
                        let _ = cons_tx.send((*i, crx));
                    },
                    _ => {
                        let crx = proxy.route_ipc_receiver_to_new_crossbeam_receiver(rx);
                        let _ = cons_tx.send((*i, crx));
                    },
                }
                live.push((*i, r.clone(), tx, r.before as u32));
            }
            // phase 2: the remaining messages of all this thread's routes, round-robin with jitter
            let maxlen = live.iter().map(|(_, r, _, _)| r.msgs.len()).max().unwrap_or(0);
            for _ in 0..maxlen {
                for (i, r, tx, next) in live.iter_mut() {
                    if (*next as usize) < r.msgs.len() {
                        sandbox::spin(r.jitter as u32);
                        tx.send(message(*i as u32, *next, r.msgs[*next as usize])).map_err(|e| format!("send on a routed channel failed: {}", e))?;
                        *next += 1;
                    }
                }
            }
            for (li, (_, _, tx, _)) in live.into_iter().enumerate() {
                drops_t[li].store(stamp(), std::sync::atomic::Ordering::SeqCst);
                drop(tx);
            }
            Ok(())
        }));
    }
    drop(cons_tx);
    for h in handles {
        match sandbox::watched(move || h.join()) {
            Ok(Ok(Ok(()))) => {},
            Ok(Ok(Err(e))) => fail!("router:send-failed", "{}", e),
            Ok(Err(_)) => fail!("router:registering-thread-panicked", "{:?}", crate::take_panics()),
            Err(hg) => return Err(sandbox::hang_failure("router:registration-hangs", "a thread registering routes / sending never finished", hg)),
        }
    }
    while let Ok((i, crx)) = cons_rx.try_recv() {
        consumers[i] = Some(crx);
    }
    let all_dropped = stamp();
    // ---- await completion of every route ----------------------------------------------------------
    // (a bounded crossbeam target makes the router wait for its consumer: all consumers therefore
    // read concurrently, starting only now - i.e. lagging behind the traffic)
    let wd = Duration::from_secs(sandbox::watchdog_secs());
    let mut consumer_threads = vec![];
    for i in 0..n {
        if case.routes[i].kind % 3 != 0 {
            let crx = consumers[i].take().unwrap();
            let log = logs[i].clone();
            let total = case.routes[i].msgs.len();
            consumer_threads.push((i, std::thread::spawn(move || -> Result<(), String> {
                let t0 = std::time::Instant::now();
                loop {
                    match crx.recv_timeout(Duration::from_millis(200)) {
                        Ok(v) => record(&log, v),
                        Err(crossbeam_channel::RecvTimeoutError::Disconnected) => {
                            log.lock().unwrap().push(Ev::Dropped { at: stamp() });
                            return Ok(());
                        },
                        Err(crossbeam_channel::RecvTimeoutError::Timeout) => {
                            if t0.elapsed() > wd * 2 {
                                let got = log.lock().unwrap().len();
                                return Err(format!("{} of {} messages forwarded, then nothing and no disconnection although the sender was dropped", got, total));
                            }
                        },
                    }
                }
            })));
        }
    }
    for i in 0..n {
        let r = &case.routes[i];
        if r.kind % 3 == 0 {
            match done_rx[i].as_ref().unwrap().recv_timeout(wd * 2) {
                Ok(()) => {},
                Err(_) => {
                    let got = logs[i].lock().unwrap().len();
                    fail!("router:callback-never-dropped", "route {} (callback): sender dropped (all drops returned by stamp {}), {} of {} messages were delivered, but the callback was not dropped within the watchdog: messages lost or closure not noticed", i, all_dropped, got, r.msgs.len());
                },
            }
        }
    }
    for (i, h) in consumer_threads {
        match h.join() {
            Ok(Ok(())) => {},
            Ok(Err(e)) => fail!("router:crossbeam-route-never-ends", "route {} (crossbeam): {}", i, e),
            Err(_) => fail!("router:consumer-panicked", "consumer of route {} panicked", i),
        }
    }
    // ---- oracle -------------------------------------------------------------------------------------
    let mut multi_thread = std::collections::BTreeSet::new();
    let mut queued_before = false;
    for i in 0..n {
        let r = &case.routes[i];
        multi_thread.insert(r.thread % 8);
        queued_before |= r.before > 0;
        let log = logs[i].lock().unwrap().clone();
        let mut next = 0u32;
        let mut dropped = 0;
        for ev in &log {
            match ev {
                Ev::Msg { route_in_tag, seq, whole, .. } => {
                    ensure!(dropped == 0, "router:message-after-drop", "route {}: a message was handled after the handler was dropped", i);
                    ensure!(*whole, "router:message-not-whole", "route {}: a handler received a message that is not whole / does not decode", i);
                    ensure!(*route_in_tag == i as u32, "router:wrong-handler", "route {}'s handler received a message of route {}", i, route_in_tag);
                    ensure!(*seq == next, "router:order-or-duplicate", "route {}: expected message {} but the handler got {}", i, next, seq);
                    next += 1;
                },
                Ev::Dropped { at } => {
                    dropped += 1;
                    let ds = drop_started[i].load(std::sync::atomic::Ordering::SeqCst);
                    ensure!(ds != 0 && ds < *at, "router:handler-dropped-early", "route {}: handler dropped at stamp {} before the sender's drop started ({})", i, at, ds);
                },
            }
        }
        ensure!(next as usize == r.msgs.len(), "router:messages-lost", "route {}: {} of {} messages reached the handler before it was dropped", i, next, r.msgs.len());
        ensure!(dropped == 1, "router:drop-count", "route {}: handler dropped {} times", i, dropped);
    }
    let nt = n >= 2 && multi_thread.len() >= 2 && queued_before;
    let class = format!(
        "{}/{}routes/{}threads{}{}",
        if case.global { "global" } else { "own-proxy" },
        match n {
            1 => "1",
            2..=8 => "2-8",
            _ => "9-32",
        },
        multi_thread.len(),
        if queued_before { "+queued-before-registration" } else { "" },
        if case.routes.iter().any(|r| r.msgs.iter().any(|c| *c > 0)) { "+multipacket" } else { "" }
    );
    Ok(Outcome::new(nt, class).with("routes", n as u64).with("routed_messages", case.routes.iter().map(|r| r.msgs.len() as u64).sum()))
}
