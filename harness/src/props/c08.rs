//! C08 - one-shot server bootstrap connects two processes and leaves nothing behind.
//!
//! Per case 1..24 (quick) / 1..200 (thorough) servers are alive at once.  For each server a client
//! (thread, forked child, or a re-executed `ipcv helper c08client`) connects and sends 1..20 messages
//! of mixed sizes, some with attachments, in one of the orders: client finishes and exits before
//! `accept`; `accept` is already waiting when the client connects; client connects and sends a
//! prefix, `accept`, client sends the rest.  Some servers are dropped unused (with or without a
//! connected client).
//! Oracle: `accept` returns the client's first message and a receiver that yields the rest in
//! order, then Disconnected once the client is gone; all names are distinct; after accept / drop
//! the private TMPDIR listing and /proc/self/fd equal the snapshot taken before the servers were
//! created (plus exactly one descriptor per accepted receiver while it is held).  On the in-process
//! build only the behavioural half applies.

use crate::engine::{Ctx, Failure, Outcome, Prop};
use crate::fdsnap;
use crate::node::{self, Node};
use crate::payload;
use crate::props::c01;
use crate::sandbox::{self, ChildEnd};
use crate::{ensure, fail};
use ipc_channel::ipc::{IpcError, IpcOneShotServer, IpcReceiver, IpcSender, IpcSharedMemory};
use proptest::prelude::*;
use serde::{Deserialize, Serialize};
use std::time::Duration;

pub struct C08;

#[derive(Clone, Debug, Serialize, Deserialize)]
pub struct Client {
    /// 0 thread, 1 forked child, 2 spawned helper process
    pub kind: u8,
    /// (size class, attach) per message; size class 0 small, k>0: k+1 packets
    pub msgs: Vec<(u8, bool)>,
    /// 0: client completes and is gone before accept; 1: accept waits first; 2: prefix, accept, rest;
    /// 3: the client sends more than the kernel buffers hold (it has to wait for the server), the
    /// server accepts after a delay and drains concurrently
    pub order: u8,
    /// the server is dropped without accept (the client, if `connects`, still connects and sends)
    pub unused: bool,
    pub connects: bool,
    /// the client connects, sends nothing and goes away; then accept is called: it must come back
    /// with an error (there is no first message) and leave nothing behind
    #[serde(default)]
    pub silent: bool,
}

#[derive(Clone, Debug, Serialize, Deserialize)]
pub struct Case {
    pub clients: Vec<Client>,
    /// run the whole server side in a forked child of this (long-lived) worker process
    #[serde(default)]
    pub server_in_forked_child: bool,
    /// one thread drives all clients: it connects to every server first and only then sends the
    /// messages round-robin, while every server's accept is already waiting
    #[serde(default)]
    pub single_driver: bool,
}

/// `reader` = somebody is receiving concurrently, so the message may exceed the kernel buffers
fn msg_len_for(class: u8, reader: bool) -> usize {
    let (f1, f) = c01::capacities();
    if reader && class > 0 {
        return if f1 > 16384 { f1 + 40_000 } else { f1 + 60 * f };
    }
    msg_len(class)
}

fn msg_len(class: u8) -> usize {
    let (f1, f) = c01::capacities();
    if f1 > 16384 {
        // real (large) packets: everything a client sends before accept must fit the kernel buffer
        return if class == 0 { 64 } else { 20_000 };
    }
    match class {
        0 => 64,
        k => f1 + (k as usize - 1) * f + 33,
    }
}

pub fn client_message(server: u32, seq: u32, class: u8, attach: bool) -> Node {
    client_message_sized(server, seq, msg_len(class), attach)
}

pub fn client_message_sized(server: u32, seq: u32, len: usize, attach: bool) -> Node {
    let t = Node::Tagged { chan: server, sender: 0, seq, body: payload::make(server, 0, seq, len, ((server as u64) << 16 | seq as u64) + 1) };
    if attach {
        Node::List(vec![t, Node::Shm(IpcSharedMemory::from_bytes(&payload::stream(seq as u64 + 5, 700 + seq as usize)))])
    } else {
        t
    }
}

fn check_message(n: Node, server: u32, seq: u32, attach: bool) -> Result<(), String> {
    let (t, reg) = match n {
        Node::List(mut v) if v.len() == 2 => {
            let r = v.pop().unwrap();
            (v.pop().unwrap(), Some(r))
        },
        other => (other, None),
    };
    match t {
        Node::Tagged { chan, seq: q, body, .. } => {
            let p = payload::parse(&body)?;
            if chan != server || q != seq || p.chan != server || p.seq != seq {
                return Err(format!("expected message ({},{}) but got ({},{})", server, seq, chan, q));
            }
        },
        other => return Err(format!("unexpected value {}", node::rendered(&other))),
    }
    match (attach, reg) {
        (false, None) => Ok(()),
        (true, Some(Node::Shm(r))) => {
            if &r[..] == &payload::stream(seq as u64 + 5, 700 + seq as usize)[..] {
                Ok(())
            } else {
                Err(format!("message ({},{}): attached region differs", server, seq))
            }
        },
        _ => Err(format!("message ({},{}): attachment missing or unexpected", server, seq)),
    }
}

/// The client's behaviour (also used by the spawned helper): connect, send messages [from, to).
pub fn client_run(name: &str, server: u32, msgs: &[(u8, bool)], from: usize, to: usize, tx: Option<IpcSender<Node>>) -> Result<IpcSender<Node>, String> {
    client_run_sized(name, server, msgs, from, to, tx, false)
}

pub fn client_run_sized(name: &str, server: u32, msgs: &[(u8, bool)], from: usize, to: usize, tx: Option<IpcSender<Node>>, reader: bool) -> Result<IpcSender<Node>, String> {
    let tx = match tx {
        Some(t) => t,
        None => IpcSender::<Node>::connect(name.to_string()).map_err(|e| format!("connect: {}", e))?,
    };
    for k in from..to {
        let (c, a) = msgs[k];
        tx.send(client_message_sized(server, k as u32, msg_len_for(c, reader), a)).map_err(|e| format!("client send {} ({} bytes): {}", k, msg_len_for(c, reader), e))?;
    }
    Ok(tx)
}

pub fn helper_main(args: &[String]) -> i32 {
    // c08client <name> <server> <sndbuf> <msgs as "c:a,c:a,...">
    // a freshly exec'ed client must not have inherited anything from the server process
    for (fd, target) in crate::fdsnap::fd_map() {
        if fd > 2 {
            eprintln!("c08client: inherited descriptor {} -> {}", fd, target);
            return 7;
        }
    }
    let name = &args[0];
    let server: u32 = args[1].parse().unwrap();
    let sb: usize = args[2].parse().unwrap();
    if sb != 0 {
        crate::interpose::SNDBUF_LIE.store(sb, std::sync::atomic::Ordering::SeqCst);
    }
    c01::measure_capacities();
    let msgs: Vec<(u8, bool)> = args[3]
        .split(',')
        .filter(|s| !s.is_empty())
        .map(|s| {
            let (c, a) = s.split_once(':').unwrap();
            (c.parse().unwrap(), a == "1")
        })
        .collect();
    let reader = args.get(4).map(|s| s == "1").unwrap_or(false);
    match client_run_sized(name, server, &msgs, 0, msgs.len(), None, reader) {
        Ok(_) => 0,
        Err(e) => {
            eprintln!("c08client: {}", e);
            1
        },
    }
}

impl Prop for C08 {
    type Case = Case;
    const ID: &'static str = "C08";
    const SCHEDULE_DEPENDENT: bool = true;

    fn setup(ctx: &Ctx) {
        c01::measure_capacities_for(ctx);
    }

    fn cases(ctx: &Ctx) -> u32 {
        ctx.param_u64("cases", ctx.pick(800, 15000) as u64) as u32
    }

    fn strategy(ctx: &Ctx) -> BoxedStrategy<Case> {
        let max_servers = if ctx.thorough { 200 } else { 24 };
        let client = (0u8..3, proptest::collection::vec((prop_oneof![5 => Just(0u8), 1 => 1u8..4], proptest::bool::weighted(0.3)), 1..=20), 0u8..4, proptest::bool::weighted(0.15), proptest::bool::weighted(0.85), proptest::bool::weighted(0.08)).prop_map(
            |(kind, mut msgs, order, unused, connects, silent)| {
                let mut multi = 0;
                for m in msgs.iter_mut() {
                    if m.0 > 0 {
                        multi += 1;
                        if multi > 4 {
                            m.0 = 0;
                        }
                    }
                }
                Client { kind, msgs, order, unused, connects, silent }
            },
        );
        (prop_oneof![4 => proptest::collection::vec(client.clone(), 1..=6), 1 => proptest::collection::vec(client, 1..=max_servers)], proptest::bool::weighted(0.2), proptest::bool::weighted(0.12))
            .prop_map(|(clients, server_in_forked_child, single_driver)| Case { clients, server_in_forked_child, single_driver })
            .boxed()
    }

    fn exec(ctx: &Ctx, case: &Case) -> Result<Outcome, Failure> {
        if case.server_in_forked_child && !cfg!(feature = "inproc") {
            // make sure this process has used the library before it forks (lazily initialised
            // process-wide state is then inherited by the child)
            let _ = IpcSharedMemory::from_bytes(b"warm");
            let (c2, ctx2) = (case.clone(), ctx.clone());
            let (end, res) = sandbox::exec_in_child(Duration::from_secs(sandbox::watchdog_secs() * 6), || {}, move || run(&ctx2, &c2));
            return match (end, res) {
                (ChildEnd::Exited(0), Some(r)) => r.map(|mut o| {
                    o.class.push_str("+server-in-forked-child");
                    o
                }),
                (ChildEnd::TimedOut, _) => Err(Failure::inconclusive("forked server side timed out")),
                (e, _) => Err(Failure::new("oneshot:forked-server-died", format!("the forked process running the server side ended {:?}: {:?}", e, crate::take_panics()))),
            };
        }
        if case.single_driver {
            return run_single_driver(case);
        }
        run(ctx, case)
    }
}

/// One thread is the client of every server: connect to all of them (in order), then send the
/// messages round-robin (last server first), then drop the senders.  Every server's `accept` is
/// already waiting in a thread of its own.  Small messages only - nothing here can block on buffers.
fn run_single_driver(case: &Case) -> Result<Outcome, Failure> {
    let os = !cfg!(feature = "inproc");
    let snap0 = fdsnap::snapshot();
    let n = case.clients.len().clamp(2, 8);
    let counts: Vec<usize> = (0..n).map(|i| case.clients.get(i).map(|c| c.msgs.len()).unwrap_or(1).clamp(1, 5)).collect();
    let mut names = vec![];
    let mut acceptors = vec![];
    for _ in 0..n {
        let (server, name) = IpcOneShotServer::<Node>::new().map_err(|e| Failure::inconclusive(format!("server: {}", e)))?;
        names.push(name);
        acceptors.push(std::thread::spawn(move || server.accept().map_err(|e| e.to_string())));
    }
    sandbox::spin(20_000);
    let counts2 = counts.clone();
    let driver = std::thread::spawn(move || -> Result<(), String> {
        let mut txs = vec![];
        for name in names {
            txs.push(IpcSender::<Node>::connect(name).map_err(|e| format!("connect: {}", e))?);
        }
        let most = counts2.iter().copied().max().unwrap_or(0);
        for seq in 0..most {
            for i in (0..txs.len()).rev() {
                if seq < counts2[i] {
                    txs[i].send(client_message_sized(i as u32, seq as u32, 64, false)).map_err(|e| format!("send {} to server {}: {}", seq, i, e))?;
                }
            }
        }
        Ok(())
    });
    match sandbox::watched(move || driver.join()) {
        Ok(Ok(Ok(()))) => {},
        Ok(Ok(Err(e))) => fail!("oneshot:client-failed", "one thread driving {} servers: {}", n, e),
        Ok(Err(_)) => fail!("oneshot:client-panicked", "one thread driving {} servers: {:?}", n, crate::take_panics()),
        Err(h) => return Err(sandbox::hang_failure("oneshot:bootstrap-deadlock", &format!("one thread connects to {} waiting servers and then sends their first messages: it never gets through", n), h)),
    }
    for (i, a) in acceptors.into_iter().enumerate() {
        let what = format!("server {} of {} (single driver)", i, n);
        let (rx, first) = match sandbox::watched(move || a.join()) {
            Ok(Ok(Ok(x))) => x,
            Ok(Ok(Err(e))) => fail!("oneshot:accept-failed", "{}: {}", what, e),
            Ok(Err(_)) => fail!("oneshot:accept-panicked", "{}: {:?}", what, crate::take_panics()),
            Err(h) => return Err(sandbox::hang_failure("oneshot:accept-hangs", &what, h)),
        };
        check_message(first, i as u32, 0, false).map_err(|e| Failure::new("oneshot:first-message-differs", format!("{}: {}", what, e)))?;
        for seq in 1..counts[i] {
            match rx.recv() {
                Ok(v) => check_message(v, i as u32, seq as u32, false).map_err(|e| Failure::new("oneshot:later-message-differs", format!("{}: {}", what, e)))?,
                Err(e) => fail!("oneshot:later-message-lost", "{}: message {} of {} did not arrive: {:?}", what, seq, counts[i], e),
            }
        }
        let end = rx.recv();
        ensure!(matches!(end, Err(IpcError::Disconnected)), "oneshot:no-disconnect", "{}: after all messages the receiver yielded {:?}", what, end.map(|v| node::rendered(&v)));
    }
    if os {
        let end = fdsnap::snapshot();
        let d = fdsnap::diff(&snap0, &end);
        ensure!(end.fds.len() == snap0.fds.len() && end.tmp == snap0.tmp, "oneshot:descriptors-left-behind", "after everything was dropped: {}", d);
    }
    Ok(Outcome::new(true, format!("single-driver/{}servers", n)).with("servers", n as u64))
}

#[allow(dead_code)]
enum Running {
    Thread(std::thread::JoinHandle<Result<(), String>>),
    Child(sandbox::Child),
    Spawned(std::process::Child),
    None,
}

fn start_client(ctx: &Ctx, kind: u8, name: String, server: u32, msgs: Vec<(u8, bool)>, reader: bool) -> Result<Running, Failure> {
    let kind = if cfg!(feature = "inproc") { 0 } else { kind % 3 };
    Ok(match kind {
        0 => Running::Thread(std::thread::spawn(move || client_run_sized(&name, server, &msgs, 0, msgs.len(), None, reader).map(|_| ()))),
        1 => Running::Child(sandbox::fork_child(move |_w| match client_run_sized(&name, server, &msgs, 0, msgs.len(), None, reader) {
            Ok(_) => 0,
            Err(_) => 1,
        })),
        _ => {
            let exe = std::env::current_exe().map_err(|e| Failure::inconclusive(e.to_string()))?;
            let spec: Vec<String> = msgs.iter().map(|(c, a)| format!("{}:{}", c, *a as u8)).collect();
            let child = std::process::Command::new(exe)
                .args(["helper", "c08client", &name, &server.to_string(), &ctx.param_u64("sndbuf", 0).to_string(), &spec.join(","), if reader { "1" } else { "0" }])
                .spawn()
                .map_err(|e| Failure::inconclusive(format!("spawn helper: {}", e)))?;
            Running::Spawned(child)
        },
    })
}

fn finish_client(r: Running, what: &str) -> Result<(), Failure> {
    match r {
        Running::None => Ok(()),
        Running::Thread(h) => match sandbox::watched(move || h.join()) {
            Ok(Ok(Ok(()))) => Ok(()),
            Ok(Ok(Err(e))) => Err(Failure::new("oneshot:client-failed", format!("{}: {}", what, e))),
            Ok(Err(_)) => Err(Failure::new("oneshot:client-panicked", format!("{}: {:?}", what, crate::take_panics()))),
            Err(h) => Err(sandbox::hang_failure("oneshot:client-hangs", what, h)),
        },
        Running::Child(c) => match c.wait(Duration::from_secs(sandbox::watchdog_secs())).0 {
            ChildEnd::Exited(0) => Ok(()),
            ChildEnd::TimedOut => Err(Failure::new("oneshot:client-hangs", format!("{}: forked client did not finish", what)).poisoned()),
            other => Err(Failure::new("oneshot:client-failed", format!("{}: forked client ended {:?}", what, other))),
        },
        Running::Spawned(mut c) => {
            let t0 = std::time::Instant::now();
            loop {
                match c.try_wait() {
                    Ok(Some(st)) if st.success() => return Ok(()),
                    Ok(Some(st)) if st.code() == Some(7) => return Err(Failure::new("oneshot:rendezvous-descriptor-inherited", format!("{}: the spawned client process inherited a descriptor of the server process (the rendezvous socket is not close-on-exec)", what))),
                    Ok(Some(st)) => return Err(Failure::new("oneshot:client-failed", format!("{}: spawned client ended {:?}", what, st))),
                    Ok(None) => {
                        if t0.elapsed() > Duration::from_secs(sandbox::watchdog_secs()) {
                            let _ = c.kill();
                            let _ = c.wait();
                            return Err(Failure::new("oneshot:client-hangs", format!("{}: spawned client did not finish", what)));
                        }
                        std::thread::sleep(Duration::from_micros(300));
                    },
                    Err(e) => return Err(Failure::inconclusive(e.to_string())),
                }
            }
        },
    }
}

fn run(ctx: &Ctx, case: &Case) -> Result<Outcome, Failure> {
    let os = !cfg!(feature = "inproc");
    let snap0 = fdsnap::snapshot();
    let n = case.clients.len();
    let mut servers: Vec<Option<IpcOneShotServer<Node>>> = vec![];
    let mut names: Vec<String> = vec![];
    for _ in 0..n {
        let (s, name) = IpcOneShotServer::<Node>::new().map_err(|e| Failure::new("oneshot:new-failed", e.to_string()))?;
        ensure!(!names.contains(&name), "oneshot:duplicate-name", "two servers alive at once share the name {}", name);
        names.push(name);
        servers.push(Some(s));
    }
    let mut receivers: Vec<(usize, IpcReceiver<Node>, usize)> = vec![];
    let mut stats = (0u32, 0u32, 0u32); // queued-before-accept, exited-before-accept, unused
    let mut pending_clients: Vec<(usize, Running)> = vec![];
    let mut big_readers: Vec<usize> = vec![];
    let mut silent_clients = 0u64;
    for (i, c) in case.clients.iter().enumerate() {
        let name = names[i].clone();
        let what = format!("server {} ({} messages, order {}, client kind {})", i, c.msgs.len(), c.order % 4, c.kind % 3);
        if c.silent && !c.unused {
            let r = start_client(ctx, c.kind % 2, name, i as u32, vec![], false)?;
            finish_client(r, &what)?;
            let server = servers[i].take().unwrap();
            match sandbox::watched(move || server.accept().map(|_| ())) {
                Ok(Err(_)) => {},
                Ok(Ok(())) => fail!("oneshot:accept-invented-message", "{}: the client connected, sent nothing and went away, yet accept returned a first message", what),
                Err(h) => return Err(sandbox::hang_failure("oneshot:accept-hangs", &format!("{}: the client connected, sent nothing and went away", what), h)),
            }
            silent_clients += 1;
            continue;
        }
        if c.unused {
            stats.2 += 1;
            // dropped without accept; a client may have connected and sent before
            if c.connects {
                let r = start_client(ctx, c.kind, name, i as u32, c.msgs.clone(), false)?;
                // the client may finish or fail (server dropped under it): both are fine here
                match r {
                    Running::Thread(h) => {
                        let _ = sandbox::watched(move || h.join());
                    },
                    Running::Child(ch) => {
                        let _ = ch.wait(Duration::from_secs(sandbox::watchdog_secs()));
                    },
                    Running::Spawned(mut ch) => {
                        let _ = ch.wait();
                    },
                    Running::None => {},
                }
            }
            servers[i] = None;
            continue;
        }
        let server = servers[i].take().unwrap();
        let total = c.msgs.len();
        match c.order % 4 {
            0 => {
                // client completes (and exits) first
                let r = start_client(ctx, c.kind, name, i as u32, c.msgs.clone(), false)?;
                finish_client(r, &what)?;
                stats.0 += (total > 1) as u32;
                stats.1 += 1;
                let acc = sandbox::watched(move || server.accept());
                let (rx, first) = match acc {
                    Ok(Ok(x)) => x,
                    Ok(Err(e)) => fail!("oneshot:accept-failed", "{}: the client connected, sent everything and exited, then accept failed: {}", what, e),
                    Err(h) => return Err(sandbox::hang_failure("oneshot:accept-hangs", &what, h)),
                };
                check_message(first, i as u32, 0, c.msgs[0].1).map_err(|e| Failure::new("oneshot:first-message-differs", format!("{}: {}", what, e)))?;
                receivers.push((i, rx, 1));
            },
            1 | 3 => {
                // 1: accept is already waiting; 3: the client runs ahead, accept comes late.  In both
                // the server reads while the client sends, so messages may exceed the kernel buffers.
                let late = c.order % 4 == 3;
                let (acc, r) = if late {
                    let r = start_client(ctx, c.kind, name, i as u32, c.msgs.clone(), true)?;
                    std::thread::sleep(Duration::from_millis(2));
                    (std::thread::spawn(move || server.accept()), r)
                } else {
                    let acc = std::thread::spawn(move || server.accept());
                    sandbox::spin(20_000);
                    (acc, start_client(ctx, c.kind, name, i as u32, c.msgs.clone(), true)?)
                };
                big_readers.push(i);
                let got = sandbox::watched(move || acc.join());
                let (rx, first) = match got {
                    Ok(Ok(Ok(x))) => x,
                    Ok(Ok(Err(e))) => fail!("oneshot:accept-failed", "{}: accept (waiting before the client connected) failed: {}", what, e),
                    Ok(Err(_)) => fail!("oneshot:accept-panicked", "{}: {:?}", what, crate::take_panics()),
                    Err(h) => return Err(sandbox::hang_failure("oneshot:accept-hangs", &what, h)),
                };
                check_message(first, i as u32, 0, c.msgs[0].1).map_err(|e| Failure::new("oneshot:first-message-differs", format!("{}: {}", what, e)))?;
                // drain right away: the client may be blocked on full buffers until we do
                let total = c.msgs.len();
                let got = sandbox::watched(move || {
                    let mut v = vec![];
                    for _ in 1..total {
                        v.push(rx.recv());
                    }
                    (rx, v)
                });
                let (rx, v) = match got {
                    Ok(x) => x,
                    Err(h) => return Err(sandbox::hang_failure("oneshot:receiver-hangs", &format!("{}: reading the client's remaining messages while it is still sending", what), h)),
                };
                for (k, m) in v.into_iter().enumerate() {
                    let seq = k as u32 + 1;
                    match m {
                        Ok(nv) => check_message(nv, i as u32, seq, c.msgs[seq as usize].1).map_err(|e| Failure::new("oneshot:later-message-differs", format!("{}: {}", what, e)))?,
                        Err(e) => fail!("oneshot:later-message-lost", "{}: message {} of {} did not arrive: {:?}", what, seq, total, e),
                    }
                }
                receivers.push((i, rx, total));
                pending_clients.push((i, r));
            },
            _ => {
                // prefix, accept, rest (thread client only: it has to pause)
                let k = (total / 2).max(1);
                let msgs = c.msgs.clone();
                let tx = client_run(&name, i as u32, &msgs, 0, k, None).map_err(|e| Failure::new("oneshot:client-failed", format!("{}: {}", what, e)))?;
                stats.0 += (k > 1) as u32;
                let acc = sandbox::watched(move || server.accept());
                let (rx, first) = match acc {
                    Ok(Ok(x)) => x,
                    Ok(Err(e)) => fail!("oneshot:accept-failed", "{}: accept after {} queued messages failed: {}", what, k, e),
                    Err(h) => return Err(sandbox::hang_failure("oneshot:accept-hangs", &what, h)),
                };
                check_message(first, i as u32, 0, c.msgs[0].1).map_err(|e| Failure::new("oneshot:first-message-differs", format!("{}: {}", what, e)))?;
                let tx = client_run(&name, i as u32, &msgs, k, total, Some(tx)).map_err(|e| Failure::new("oneshot:client-failed", format!("{}: after accept: {}", what, e)))?;
                drop(tx);
                receivers.push((i, rx, 1));
            },
        }
    }
    for (i, r) in pending_clients {
        finish_client(r, &format!("client of server {}", i))?;
    }
    // while the accepted receivers are held: exactly one descriptor each beyond the baseline
    if os {
        let now = fdsnap::snapshot();
        let extra = now.fds.len() as i64 - snap0.fds.len() as i64;
        ensure!(extra == receivers.len() as i64, "oneshot:descriptors-left-behind", "{} servers accepted/dropped, {} receivers held, but the process holds {} more descriptors than before ({})", n, receivers.len(), extra, fdsnap::diff(&snap0, &now));
        ensure!(now.tmp == snap0.tmp, "oneshot:files-left-behind", "rendezvous files remain after accept/drop: {}", fdsnap::diff(&snap0, &now));
    }
    // the rest of every client's messages, in order, then Disconnected
    for (i, rx, from) in receivers {
        let c = &case.clients[i];
        let total = c.msgs.len();
        let got = sandbox::watched(move || {
            let mut v = vec![];
            for _ in from..total {
                v.push(rx.recv());
            }
            let end = rx.recv();
            (v, end)
        });
        let (v, end) = match got {
            Ok(x) => x,
            Err(h) => return Err(sandbox::hang_failure("oneshot:receiver-hangs", &format!("server {}: reading the client's remaining {} messages and the disconnection", i, total - from), h)),
        };
        for (k, r) in v.into_iter().enumerate() {
            let seq = (from + k) as u32;
            match r {
                Ok(nv) => check_message(nv, i as u32, seq, c.msgs[seq as usize].1).map_err(|e| Failure::new("oneshot:later-message-differs", format!("server {}: {}", i, e)))?,
                Err(e) => fail!("oneshot:later-message-lost", "server {}: message {} of {} (sent {} accept) did not arrive: {:?}", i, seq, total, if c.order % 3 == 0 { "before" } else { "around" }, e),
            }
        }
        ensure!(matches!(end, Err(IpcError::Disconnected)), "oneshot:no-disconnect", "server {}: after all {} messages and the client's exit the receiver yielded {:?}", i, total, end.map(|v| node::rendered(&v)));
    }
    if os {
        let end = fdsnap::snapshot();
        let d = fdsnap::diff(&snap0, &end);
        ensure!(end.fds.len() == snap0.fds.len() && end.tmp == snap0.tmp, "oneshot:descriptors-left-behind", "after everything was dropped: {}", d);
    }
    let nt = stats.0 > 0 || stats.1 > 0 || n >= 2 || !big_readers.is_empty();
    let class = format!(
        "{}{}{}{}",
        match n {
            1 => "1server",
            2..=6 => "2-6servers",
            7..=24 => "7-24servers",
            _ => "25+servers",
        },
        if stats.0 > 0 { "+queued-before-accept" } else { "" },
        if stats.1 > 0 { "+client-gone-before-accept" } else { "" },
        if stats.2 > 0 { "+dropped-unused" } else { "" }
    ) + if big_readers.is_empty() { "" } else { "+messages-beyond-the-buffers" }
        + if silent_clients > 0 { "+silent-client" } else { "" };
    Ok(Outcome::new(nt, class).with("servers", n as u64).with("silent_clients", silent_clients))
}
