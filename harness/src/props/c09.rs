//! C09 - sending to a vanished receiver fails cleanly; a receiver in transit still counts.
//!
//! (a) Histories: generated programs (heavy on receiver drops, carrier drops and sends of all
//! sizes with and without attachments) run in lock-step with the world model *inside a forked child
//! whose SIGPIPE disposition is the default*: every send must be Ok exactly when the model says the
//! receiving end still exists somewhere (held, in a set, in a server, or in transit inside an
//! undelivered message), messages accepted while the receiver was in transit are delivered in order
//! after unpacking, and the child must end normally (not by a signal).
//! (b) Races: a stream of sends against a receiver dropped by another thread or another (forked)
//! process at a generated point; verdicts from logical-clock stamps: a send that started after the
//! drop returned must fail, a send that returned before the drop began must succeed, none may hang.

use crate::engine::{Ctx, Failure, Outcome, Prop};
use crate::interpose::{self as ip, stamp};
use crate::node::Node;
use crate::payload;
use crate::props::c01;
use crate::sandbox::{self, ChildEnd};
use crate::world::{self, Op, World};
use crate::{ensure, fail};
use ipc_channel::ipc::{self};
use proptest::prelude::*;
use serde::{Deserialize, Serialize};
use std::sync::atomic::Ordering::SeqCst;
use std::time::Duration;

pub struct C09;

#[derive(Clone, Debug, Serialize, Deserialize)]
pub struct SendPlan {
    /// 0 small, k>0: k+1 packets
    pub size: u8,
    pub attach: bool,
    pub jitter: u16,
}

#[derive(Clone, Debug, Serialize, Deserialize)]
pub enum Case {
    History { ops: Vec<Op> },
    Race {
        sends: Vec<SendPlan>,
        drop_jitter: u16,
        by_process: bool,
        bytes: bool,
        /// (process mode) the receiving process reads the stream and is killed at the generated
        /// point - possibly in the middle of reassembling a multi-packet message - instead of
        /// dropping a receiver it never read from
        #[serde(default)]
        drain: bool,
        /// (thread mode) the receiver goes away because the thread that owns it unwinds (panics)
        #[serde(default)]
        panic_drop: bool,
    },
}

fn sigpipe_default() {
    unsafe { libc::signal(libc::SIGPIPE, libc::SIG_DFL) };
}

impl Prop for C09 {
    type Case = Case;
    const ID: &'static str = "C09";
    const SCHEDULE_DEPENDENT: bool = true;

    fn setup(ctx: &Ctx) {
        c01::measure_capacities_for(ctx);
        let _ = ip::shared();
    }

    fn cases(ctx: &Ctx) -> u32 {
        ctx.param_u64("cases", ctx.pick(1200, 24000) as u64) as u32
    }

    fn strategy(ctx: &Ctx) -> BoxedStrategy<Case> {
        let max_len = if ctx.thorough { 60 } else { 40 };
        //  create clone droptx droprx send recv region set server remote
        let hist = world::program_strategy([3, 2, 1, 5, 12, 4, 0, 1, 1, 1], 3, max_len).prop_map(|ops| Case::History { ops });
        // size class 9: a message far larger than the kernel buffers - its send blocks until the
        // receiver reads or vanishes (the receiver of the race never reads, it only vanishes)
        let plan = (prop_oneof![6 => Just(0u8), 3 => 1u8..4, 1 => Just(9u8)], any::<bool>(), 0u16..2000).prop_map(|(size, attach, jitter)| SendPlan { size, attach, jitter });
        let race = (proptest::collection::vec(plan, 1..9), 0u16..6000, any::<bool>(), any::<bool>(), any::<bool>(), proptest::bool::weighted(0.3))
            .prop_map(|(sends, drop_jitter, by_process, bytes, drain, panic_drop)| Case::Race { sends, drop_jitter, by_process, bytes, drain, panic_drop });
        prop_oneof![3 => hist, 2 => race].boxed()
    }

    fn exec(_ctx: &Ctx, case: &Case) -> Result<Outcome, Failure> {
        let case2 = case.clone();
        let (end, res) = sandbox::exec_in_child(Duration::from_secs(sandbox::watchdog_secs() * 3), sigpipe_default, move || match &case2 {
            Case::History { ops } => {
                let (f1, f) = c01::capacities();
                let mut w = World::new(f1, f);
                for op in ops {
                    w.step(op)?;
                }
                w.probe_all()?;
                let s = &w.stats;
                let nt = s.rich_sends_err > 0 || s.sends_to_in_transit_rx > 0;
                let class = format!(
                    "history{}{}{}",
                    if s.sends_err > 0 { "+send-to-dead" } else { "" },
                    if s.rich_sends_err > 0 { "(multipacket/attachments)" } else { "" },
                    if s.sends_to_in_transit_rx > 0 { "+send-to-receiver-in-transit" } else { "" }
                );
                Ok(Outcome::new(nt, class)
                    .with("sends_ok", s.sends_ok as u64)
                    .with("sends_err", s.sends_err as u64)
                    .with("rich_sends_err", s.rich_sends_err as u64)
                    .with("sends_to_in_transit_receiver", s.sends_to_in_transit_rx as u64))
            },
            Case::Race { sends, drop_jitter, by_process, bytes, drain, panic_drop } => race(sends, *drop_jitter, *by_process, *bytes, *drain, *panic_drop),
        });
        match end {
            ChildEnd::Exited(0) => match res {
                Some(r) => r,
                None => Err(Failure::inconclusive("child exited without a verdict")),
            },
            ChildEnd::Signaled(sig) if sig == libc::SIGPIPE => fail!("send:killed-by-SIGPIPE", "the sending process was terminated by SIGPIPE (default disposition) instead of getting an error from send"),
            ChildEnd::Signaled(sig) => fail!("send:process-killed", "the process running the case was killed by signal {}", sig),
            ChildEnd::Exited(101) => fail!("send:panicked", "the case panicked in the child (see stderr of the worker)"),
            ChildEnd::Exited(c) => Err(Failure::inconclusive(format!("child exit code {}", c))),
            ChildEnd::TimedOut => match res {
                Some(r) => r,
                None => fail!("send:hangs", "the child running the case (sends against a vanishing receiver) did not finish within the watchdog"),
            },
        }
    }
}

fn race(sends: &[SendPlan], drop_jitter: u16, by_process: bool, bytes: bool, drain: bool, panic_drop: bool) -> Result<Outcome, Failure> {
    let (f1, f) = c01::capacities();
    let by_process = by_process && !cfg!(feature = "inproc");
    let drain = drain && by_process;
    let panic_drop = panic_drop && !by_process;
    let sh = ip::shared();
    sh.scratch[0].store(0, SeqCst); // go flag
    sh.scratch[1].store(0, SeqCst); // drop start stamp
    sh.scratch[2].store(0, SeqCst); // drop end stamp
    enum Tx {
        T(ipc::IpcSender<Node>),
        B(ipc::IpcBytesSender),
    }
    #[allow(dead_code)]
    enum Rx {
        T(ipc::IpcReceiver<Node>),
        B(ipc::IpcBytesReceiver),
    }
    let (tx, rx) = if bytes {
        let (t, r) = ipc::bytes_channel().map_err(|e| Failure::inconclusive(e.to_string()))?;
        (Tx::B(t), Rx::B(r))
    } else {
        let (t, r) = ipc::channel::<Node>().map_err(|e| Failure::inconclusive(e.to_string()))?;
        (Tx::T(t), Rx::T(r))
    };
    let wait_for_huge = sends.iter().any(|p| p.size == 9) && drop_jitter % 2 == 0;
    sh.scratch[3].store(0, SeqCst);
    let do_drop = move |rx: Rx| {
        let sh = ip::shared();
        while sh.scratch[0].load(SeqCst) == 0 {
            std::hint::spin_loop();
        }
        if wait_for_huge {
            // drop while the sender is blocked in the middle of its huge message: wait until it has
            // started that send, then give it time to fill the kernel buffers
            let t0 = std::time::Instant::now();
            while sh.scratch[3].load(SeqCst) == 0 && t0.elapsed() < std::time::Duration::from_secs(5) {
                std::thread::yield_now();
            }
            std::thread::sleep(std::time::Duration::from_millis(3));
        }
        sandbox::spin(drop_jitter as u32 * 16);
        sh.scratch[1].store(stamp(), SeqCst);
        if panic_drop {
            // the owner of the receiver unwinds: the receiver is dropped by the panic machinery
            let _ = std::panic::catch_unwind(std::panic::AssertUnwindSafe(move || {
                let _owned = rx;
                std::panic::panic_any("intended: the receiver's owner unwinds");
            }));
            let _ = crate::take_panics();
        } else {
            drop(rx);
        }
        sh.scratch[2].store(stamp(), SeqCst);
    };
    let mut child = None;
    let mut dropper = None;
    if drain {
        // the receiver moves to a forked process that reads whatever arrives; a thread of this
        // process kills it at the generated point (its descriptors vanish with it)
        let c = sandbox::fork_child(move |_w| {
            loop {
                let gone = match &rx {
                    Rx::T(r) => r.recv().is_err(),
                    Rx::B(r) => r.recv().is_err(),
                };
                if gone {
                    return 0;
                }
            }
        });
        dropper = Some(std::thread::spawn(move || {
            let sh = ip::shared();
            while sh.scratch[0].load(SeqCst) == 0 {
                std::hint::spin_loop();
            }
            if wait_for_huge {
                let t0 = std::time::Instant::now();
                while sh.scratch[3].load(SeqCst) == 0 && t0.elapsed() < std::time::Duration::from_secs(5) {
                    std::thread::yield_now();
                }
            }
            sandbox::spin(drop_jitter as u32 * 16);
            sh.scratch[1].store(stamp(), SeqCst);
            c.kill();
            let _ = c.wait(Duration::from_secs(5));
            sh.scratch[2].store(stamp(), SeqCst);
        }));
    } else if by_process {
        // the receiver moves to a forked process (this process is single-threaded here)
        let c = sandbox::fork_child(|_w| {
            do_drop(rx);
            0
        });
        child = Some(c);
    } else {
        dropper = Some(std::thread::spawn(move || do_drop(rx)));
    }
    let plans = sends.to_vec();
    let huge = std::sync::Arc::new(std::sync::atomic::AtomicBool::new(false));
    let huge_seen = huge.clone();
    let sender = std::thread::spawn(move || {
        let sh = ip::shared();
        sh.scratch[0].store(1, SeqCst);
        let mut log = vec![];
        for (k, p) in plans.iter().enumerate() {
            sandbox::spin(p.jitter as u32 * 16);
            let len = match p.size {
                0 => 100,
                9 if drain => 6_000_000,
                9 => 700_000,
                n => (f1 + n as usize * f - 33).min(300_000),
            };
            let body = payload::make(0, 0, k as u32, len, k as u64 + 1);
            if p.size == 9 || len > 100_000 {
                // this send may block on full buffers until the receiver vanishes: whoever waits
                // for the huge send must not wait beyond this point
                ip::shared().scratch[3].store(1, SeqCst);
            }
            let s = stamp();
            let ok = match &tx {
                Tx::B(t) => t.send(&body).is_ok(),
                Tx::T(t) => {
                    let v = if p.attach {
                        let (t2, r2) = ipc::channel::<Node>().unwrap();
                        Node::List(vec![Node::Tagged { chan: 0, sender: 0, seq: k as u32, body }, Node::Tx(t2), Node::Rx(r2), Node::Shm(ipc::IpcSharedMemory::from_byte(1, 10))])
                    } else {
                        Node::Tagged { chan: 0, sender: 0, seq: k as u32, body }
                    };
                    t.send(v).is_ok()
                },
            };
            let e = stamp();
            log.push((s, e, ok, p.size > 0 || p.attach));
            if p.size == 9 {
                huge.store(true, SeqCst);
            }
        }
        log
    });
    let log = match sandbox::watched(move || sender.join()) {
        Ok(Ok(l)) => l,
        Ok(Err(_)) => fail!("race:sender-panicked", "the sending thread panicked"),
        Err(h) => return Err(sandbox::hang_failure("race:send-hangs", "a send (possibly blocked on full buffers in the middle of a multi-packet message) against a receiver that was dropped never returned", h)),
    };
    if let Some(d) = dropper {
        let _ = d.join();
    }
    if let Some(c) = child {
        let (end, _) = c.wait(Duration::from_secs(sandbox::watchdog_secs()));
        if !matches!(end, ChildEnd::Exited(0)) {
            return Err(Failure::inconclusive(format!("dropper process ended {:?}", end)));
        }
    }
    let (ds, de) = (sh.scratch[1].load(SeqCst), sh.scratch[2].load(SeqCst));
    let mut after = 0;
    let mut rich_after = 0;
    let spanning = log.iter().any(|(s, e, _, _)| ds != 0 && *s < ds && *e > de);
    for (k, (s, e, ok, rich)) in log.iter().enumerate() {
        if de != 0 && *s > de {
            ensure!(!ok, "race:ok-after-receiver-dropped", "send {} started at stamp {} after the receiver's drop had returned (stamp {}) and still reported success", k, s, de);
            after += 1;
            if *rich {
                rich_after += 1;
            }
        }
        if ds == 0 || *e < ds {
            ensure!(*ok, "race:error-before-receiver-dropped", "send {} returned at stamp {} before the receiver's drop began (stamp {}) but failed", k, e, ds);
        }
    }
    let class = format!("race/{}{}{}{}", if drain { "process-killed-while-reading" } else if by_process { "process" } else if panic_drop { "thread-unwinding" } else { "thread" }, if bytes { "+bytes" } else { "" }, if rich_after > 0 { "+rich-send-after-drop" } else if after > 0 { "+send-after-drop" } else { "" }, if huge_seen.load(SeqCst) && spanning { "+drop-during-blocked-huge-send" } else if huge_seen.load(SeqCst) { "+huge-send" } else { "" });
    Ok(Outcome::new(rich_after > 0, class).with("race_sends_after_drop", after))
}
