//! C10 - non-blocking and timed receives never block, miss a message, or poison.
//!
//! A generated script of up to 30 steps mixes `recv`, `try_recv` and `try_recv_timeout(d)` with d
//! in {0, 1 ns, 999 us, 1 ms, 1.5 ms, 5-50 ms, 1-2 s (rare)} against a sender thread that sends
//! (small or multi-packet) or drops *before*, *during* (after a delay much shorter than d) or
//! *after* the call.
//! Oracle (causal; every call and every send/drop is stamped with the logical clock and with the
//! monotonic clock): `try_recv` must be Ok(next) if an undelivered message's send returned before
//! the call started, Empty if nothing was sent and a sender is alive, Disconnected if the last
//! sender's drop returned before the call and nothing is queued; in racing situations any answer
//! consistent with some instant of the call is accepted.  `try_recv_timeout(d)`: Empty implies the
//! call lasted at least floor(d) ms and that no message/drop had completed before start +
//! floor(d) ms; something that was complete before that instant must be what is returned.  A
//! blocking `recv` after any Empty still blocks until its message arrives and returns it.
//! The monotonic clock is used only in these two sound directions (never "was it fast enough").

use crate::engine::{Ctx, Failure, Outcome, Prop};
use crate::interpose::stamp;
use crate::node::Node;
use crate::payload;
use crate::props::c01;
use crate::sandbox;
use crate::{ensure, fail};
use ipc_channel::ipc::{self, IpcError, IpcSender, TryRecvError};
use proptest::prelude::*;
use serde::{Deserialize, Serialize};
use std::sync::mpsc;
use std::time::{Duration, Instant};

pub struct C10;

#[derive(Clone, Debug, Serialize, Deserialize, PartialEq)]
pub enum Op {
    Recv,
    TryRecv,
    /// timeout in nanoseconds
    Timeout(u64),
}

#[derive(Clone, Debug, Serialize, Deserialize, PartialEq)]
pub enum Action {
    Nothing,
    /// message fully sent before the call starts (size class)
    SendBefore(u8),
    /// message sent `delay_us` after the call started
    SendDuring { delay_us: u32, size: u8 },
    /// the (last) sender is dropped before the call
    DropBefore,
    DropDuring { delay_us: u32 },
    /// a message of 160 packets whose send started before the call and is blocked half-way (the
    /// kernel buffers are full) when the call starts
    HugeInProgress,
}

#[derive(Clone, Debug, Serialize, Deserialize)]
pub struct Step {
    pub op: Op,
    pub action: Action,
}

#[derive(Clone, Debug, Serialize, Deserialize)]
pub struct Case {
    pub steps: Vec<Step>,
    pub bytes: bool,
    /// (typed channels) where the receiver under test comes from: 0 `channel()`, 1 the receiver
    /// returned by a one-shot server's `accept`, 2 a receiver that was polled and then transferred
    /// through another channel
    #[serde(default)]
    pub origin: u8,
    /// > 0: before the script, a blocking `recv` is issued on the connected but idle channel and
    /// the only message is sent this many milliseconds later: the call must wait for it
    #[serde(default)]
    pub idle_ms: u32,
}

fn msg_len(class: u8) -> usize {
    let (f1, f) = c01::capacities();
    if f1 > 16384 {
        return if class == 0 { 80 } else { 30_000 };
    }
    match class {
        0 => 80,
        // class 8: far more than the kernel buffers hold - the sender blocks in the middle of the
        // message until the receiver takes its fragments
        8 => 160 * f,
        k => f1 + (k as usize - 1) * f + 21,
    }
}

enum Cmd {
    Send { size: u8, delay_us: u32, seq: u32, reply: mpsc::Sender<Done> },
    Drop { delay_us: u32, reply: mpsc::Sender<Done> },
}

#[derive(Debug, Clone)]
struct Done {
    #[allow(dead_code)]
    end_stamp: u64,
    end_at: Instant,
    ok: bool,
}

enum Tx {
    T(IpcSender<Node>),
    B(ipc::IpcBytesSender),
}

fn timeout_strategy() -> BoxedStrategy<u64> {
    prop_oneof![
        3 => Just(0u64),
        2 => Just(1u64),
        2 => Just(999_000u64),
        2 => Just(1_000_000u64),
        2 => Just(1_500_000u64),
        6 => 5_000_000u64..50_000_000,
        1 => 100_000_000u64..300_000_000,
        // "practically for ever" (such calls are only issued when the script makes them return)
        1 => prop_oneof![Just(u64::MAX), Just(i64::MAX as u64), Just(4_000_000_000_000_000u64)],
    ]
    .boxed()
}

impl Prop for C10 {
    type Case = Case;
    const ID: &'static str = "C10";
    const SCHEDULE_DEPENDENT: bool = true;

    fn setup(ctx: &Ctx) {
        c01::measure_capacities_for(ctx);
    }

    fn cases(ctx: &Ctx) -> u32 {
        ctx.param_u64("cases", ctx.pick(1500, 30000) as u64) as u32
    }

    fn strategy(ctx: &Ctx) -> BoxedStrategy<Case> {
        let mut ops: Vec<(u32, BoxedStrategy<Op>)> = vec![
            (30, Just(Op::Recv).boxed()),
            (50, Just(Op::TryRecv).boxed()),
            (60, timeout_strategy().prop_map(Op::Timeout).boxed()),
        ];
        if ctx.thorough {
            ops.push((1, (1_000_000_000u64..2_000_000_000).prop_map(Op::Timeout).boxed()));
        }
        let op = proptest::strategy::Union::new_weighted(ops);
        let size = prop_oneof![4 => Just(0u8), 1 => 1u8..4];
        let size_during = prop_oneof![8 => Just(0u8), 2 => 1u8..4, 1 => Just(8u8)];
        let action = prop_oneof![
            4 => Just(Action::Nothing),
            4 => size.clone().prop_map(Action::SendBefore),
            4 => (0u32..3000, size_during).prop_map(|(delay_us, size)| Action::SendDuring { delay_us, size }),
            1 => Just(Action::DropBefore),
            1 => (0u32..3000).prop_map(|delay_us| Action::DropDuring { delay_us }),
            1 => Just(Action::HugeInProgress),
        ];
        (proptest::collection::vec((op, action).prop_map(|(op, action)| Step { op, action }), 1..=30), proptest::bool::weighted(0.25), prop_oneof![3 => Just(0u8), 1 => Just(1u8), 1 => Just(2u8)], prop_oneof![6 => Just(0u32), 1 => 1u32..60])
            .prop_map(|(steps, bytes, origin, idle_ms)| Case { steps, bytes, origin, idle_ms })
            .boxed()
    }

    fn enumerated(ctx: &Ctx) -> Vec<Case> {
        // long silences: a blocking receive must outlast them whatever the receiver's origin
        // (time-outs left armed on a descriptor are typically whole seconds)
        let idle_ms = if ctx.thorough { 31_000 } else { 10_700 };
        let mut v = vec![];
        for origin in 0..3u8 {
            for bytes in [false, true] {
                if bytes && origin != 0 {
                    continue;
                }
                v.push(Case { steps: vec![Step { op: Op::TryRecv, action: Action::Nothing }, Step { op: Op::Recv, action: Action::SendDuring { delay_us: 2000, size: 0 } }], bytes, origin, idle_ms });
            }
        }
        v
    }

    fn exec(_ctx: &Ctx, case: &Case) -> Result<Outcome, Failure> {
        run(case)
    }
}

#[derive(Debug)]
enum Res {
    Msg(u32),
    Empty,
    Disc,
    Bad(String),
}

fn run(case: &Case) -> Result<Outcome, Failure> {
    enum Rx {
        T(ipc::IpcReceiver<Node>),
        B(ipc::IpcBytesReceiver),
    }
    let (tx, rx) = if case.bytes {
        let (t, r) = ipc::bytes_channel().map_err(|e| Failure::inconclusive(e.to_string()))?;
        (Tx::B(t), Rx::B(r))
    } else {
        let (t, r) = ipc::channel::<Node>().map_err(|e| Failure::inconclusive(e.to_string()))?;
        (Tx::T(t), Rx::T(r))
    };
    let origin = if case.bytes { 0 } else { case.origin % 3 };
    let (tx, rx) = match (origin, tx, rx) {
        (1, Tx::T(_), Rx::T(_)) => {
            let inc = |e: String| Failure::inconclusive(format!("one-shot bootstrap: {}", e));
            let (server, name) = ipc::IpcOneShotServer::<Node>::new().map_err(|e| inc(e.to_string()))?;
            let t = ipc::IpcSender::<Node>::connect(name).map_err(|e| inc(e.to_string()))?;
            t.send(Node::Unit).map_err(|e| inc(e.to_string()))?;
            let (r, _first) = server.accept().map_err(|e| inc(e.to_string()))?;
            (Tx::T(t), Rx::T(r))
        },
        (2, Tx::T(t), Rx::T(r)) => {
            let inc = |e: String| Failure::inconclusive(format!("receiver transfer: {}", e));
            let (ct, cr) = ipc::channel::<ipc::IpcReceiver<Node>>().map_err(|e| inc(e.to_string()))?;
            let _ = r.try_recv();
            ct.send(r).map_err(|e| inc(e.to_string()))?;
            let r = cr.recv().map_err(|e| inc(format!("{:?}", e)))?;
            (Tx::T(t), Rx::T(r))
        },
        (_, t, r) => (t, r),
    };
    // sender thread: executes commands; owns the only sender handle
    let (cmd_tx, cmd_rx) = mpsc::channel::<Cmd>();
    let sender = std::thread::spawn(move || {
        let mut tx = Some(tx);
        while let Ok(c) = cmd_rx.recv() {
            match c {
                Cmd::Send { size, delay_us, seq, reply } => {
                    if delay_us > 0 {
                        std::thread::sleep(Duration::from_micros(delay_us as u64));
                    }
                    let body = payload::make(0, 0, seq, msg_len(size), seq as u64 + 3);
                    let ok = match tx.as_ref() {
                        Some(Tx::T(t)) => t.send(Node::Tagged { chan: 0, sender: 0, seq, body }).is_ok(),
                        Some(Tx::B(t)) => t.send(&body).is_ok(),
                        None => false,
                    };
                    let _ = reply.send(Done { end_stamp: stamp(), end_at: Instant::now(), ok });
                },
                Cmd::Drop { delay_us, reply } => {
                    if delay_us > 0 {
                        std::thread::sleep(Duration::from_micros(delay_us as u64));
                    }
                    tx = None;
                    let _ = reply.send(Done { end_stamp: stamp(), end_at: Instant::now(), ok: true });
                },
            }
        }
    });

    let decode = |r: Result<Vec<u8>, String>| -> Res {
        match r {
            Ok(b) => match payload::parse(&b) {
                Ok(p) => Res::Msg(p.seq),
                Err(e) => Res::Bad(e),
            },
            Err(e) => Res::Bad(e),
        }
    };
    let mut next_send = 0u32; // sequence number of the next message to send
    let mut next_recv = 0u32; // sequence number of the next message to be delivered
    let mut sender_dropped = false;
    let mut had_empty = false;
    let mut stats = (0u32, 0u32, 0u32); // recv-after-empty, event-during-timed-wait, sub-ms timeouts
    let mut rx = Some(rx);
    if case.idle_ms > 0 {
        let (rt, rr) = mpsc::channel();
        cmd_tx.send(Cmd::Send { size: 0, delay_us: case.idle_ms.saturating_mul(1000), seq: next_send, reply: rt }).unwrap();
        next_send += 1;
        let r = rx.take().unwrap();
        let t0 = Instant::now();
        let called = sandbox::watched_for(Duration::from_millis(case.idle_ms as u64) + Duration::from_secs(sandbox::watchdog_secs()), move || {
            let res = match &r {
                Rx::T(r) => match r.recv() {
                    Ok(Node::Tagged { body, .. }) => Ok(body),
                    Ok(_) => Err("unexpected value".to_string()),
                    Err(e) => Err(format!("{:?}", e)),
                },
                Rx::B(r) => r.recv().map_err(|e| format!("{:?}", e)),
            };
            (r, res)
        });
        let (r, res) = match called {
            Ok(x) => x,
            Err(h) => return Err(sandbox::hang_failure("idle:recv-hangs", &format!("blocking recv on an idle channel whose only message was sent after {} ms", case.idle_ms), h)),
        };
        match decode(res) {
            Res::Msg(s) if s == next_recv => next_recv += 1,
            other => fail!(
                "idle:blocking-recv-gave-up",
                "a blocking recv on a connected, idle channel (receiver obtained by {}) returned {:?} after {:?}; the only message was sent {} ms after the call began",
                ["channel()", "IpcOneShotServer::accept", "transfer through another channel after a try_recv"][origin as usize],
                other,
                t0.elapsed(),
                case.idle_ms
            ),
        }
        let _ = rr.recv();
        rx = Some(r);
    }
    for (si, st) in case.steps.iter().enumerate() {
        // --- normalise the step against the state so that nothing can block forever --------------------
        let mut action = st.action.clone();
        if sender_dropped {
            action = Action::Nothing;
        }
        let queued = next_send - next_recv;
        let mut op = st.op.clone();
        if case.bytes {
            if let Op::Timeout(_) = op {
                op = Op::TryRecv; // bytes receivers have no timed receive
            }
        }
        let for_ever = matches!(op, Op::Timeout(ns) if ns >= 3_600_000_000_000);
        if op == Op::Recv || for_ever {
            let will_return = queued > 0 || sender_dropped || matches!(action, Action::SendBefore(_) | Action::SendDuring { .. } | Action::DropBefore | Action::DropDuring { .. } | Action::HugeInProgress);
            if !will_return {
                op = Op::TryRecv;
            }
        }
        // --- "before" actions ------------------------------------------------------------------------------
        let mut during: Option<mpsc::Receiver<Done>> = None;
        let mut during_is_send = false;
        match action {
            Action::SendBefore(size) => {
                let (rt, rr) = mpsc::channel();
                cmd_tx.send(Cmd::Send { size, delay_us: 0, seq: next_send, reply: rt }).unwrap();
                let d = rr.recv().map_err(|_| Failure::inconclusive("sender thread gone"))?;
                ensure!(d.ok, "timed:send-failed", "step {}: send failed although the receiver exists", si);
                next_send += 1;
            },
            Action::DropBefore => {
                let (rt, rr) = mpsc::channel();
                cmd_tx.send(Cmd::Drop { delay_us: 0, reply: rt }).unwrap();
                let _ = rr.recv();
                sender_dropped = true;
            },
            Action::HugeInProgress => {
                let (rt, rr) = mpsc::channel();
                cmd_tx.send(Cmd::Send { size: 8, delay_us: 0, seq: next_send, reply: rt }).unwrap();
                next_send += 1;
                during = Some(rr);
                during_is_send = true;
                // give the sender time to put the first packet on the wire and fill the buffers
                std::thread::sleep(Duration::from_millis(3));
            },
            _ => {},
        }
        let in_progress = matches!(action, Action::HugeInProgress);
        let queued = next_send - next_recv - in_progress as u32;
        let dropped_before = sender_dropped;
        // --- the call, with the "during" action racing it -----------------------------------------------------
        let (s_stamp, s_at) = (stamp(), Instant::now());
        match action {
            Action::SendDuring { delay_us, size } => {
                let (rt, rr) = mpsc::channel();
                cmd_tx.send(Cmd::Send { size, delay_us, seq: next_send, reply: rt }).unwrap();
                next_send += 1;
                during = Some(rr);
                during_is_send = true;
            },
            Action::DropDuring { delay_us } => {
                let (rt, rr) = mpsc::channel();
                cmd_tx.send(Cmd::Drop { delay_us, reply: rt }).unwrap();
                sender_dropped = true;
                during = Some(rr);
            },
            _ => {},
        }
        let r = rx.take().unwrap();
        let op2 = op.clone();
        let called = sandbox::watched(move || {
            let res = match (&r, &op2) {
                (Rx::T(r), Op::Recv) => match r.recv() {
                    Ok(Node::Tagged { body, .. }) => Ok(Ok(body)),
                    Ok(_) => Ok(Err("unexpected value".to_string())),
                    Err(IpcError::Disconnected) => Err(Res::Disc),
                    Err(e) => Ok(Err(format!("{:?}", e))),
                },
                (Rx::T(r), Op::TryRecv) | (Rx::T(r), Op::Timeout(_)) => {
                    let q = match &op2 {
                        Op::Timeout(ns) => r.try_recv_timeout(if *ns == u64::MAX { Duration::MAX } else { Duration::from_nanos(*ns) }),
                        _ => r.try_recv(),
                    };
                    match q {
                        Ok(Node::Tagged { body, .. }) => Ok(Ok(body)),
                        Ok(_) => Ok(Err("unexpected value".to_string())),
                        Err(TryRecvError::Empty) => Err(Res::Empty),
                        Err(TryRecvError::IpcError(IpcError::Disconnected)) => Err(Res::Disc),
                        Err(TryRecvError::IpcError(e)) => Ok(Err(format!("{:?}", e))),
                    }
                },
                (Rx::B(r), Op::Recv) => match r.recv() {
                    Ok(b) => Ok(Ok(b)),
                    Err(IpcError::Disconnected) => Err(Res::Disc),
                    Err(e) => Ok(Err(format!("{:?}", e))),
                },
                (Rx::B(r), _) => match r.try_recv() {
                    Ok(b) => Ok(Ok(b)),
                    Err(TryRecvError::Empty) => Err(Res::Empty),
                    Err(TryRecvError::IpcError(IpcError::Disconnected)) => Err(Res::Disc),
                    Err(TryRecvError::IpcError(e)) => Ok(Err(format!("{:?}", e))),
                },
            };
            let (r_stamp, r_at) = (stamp(), Instant::now());
            (r, res, r_stamp, r_at)
        });
        let (r, res, r_stamp, r_at) = match called {
            Ok(x) => x,
            Err(h) => {
                return Err(sandbox::hang_failure(
                    "timed:call-hangs",
                    &format!("step {}: {:?} with action {:?} ({} message(s) queued, sender dropped: {}) did not return", si, op, action, queued, dropped_before),
                    h,
                ))
            },
        };
        rx = Some(r);
        let res = match res {
            Ok(b) => decode(b),
            Err(x) => x,
        };
        // A huge racing message blocks its sender until it is received: if this call did not take
        // it (it returned Empty before the message started), a blocking recv takes it now - which
        // is also the "blocking receive after an Empty still works" obligation.
        let huge = matches!(action, Action::SendDuring { size: 8, .. } | Action::HugeInProgress);
        let huge_seq = next_send.wrapping_sub(1);
        let mut extras: Vec<Res> = vec![];
        if huge {
            // everything up to and including the huge message has to be taken now
            let mut taken_upto = match &res {
                Res::Msg(q) => Some(*q),
                _ => None,
            };
            while taken_upto != Some(huge_seq) {
                let r = rx.take().unwrap();
                let out = sandbox::watched(move || {
                    let x = match &r {
                        Rx::T(r) => match r.recv() {
                            Ok(Node::Tagged { body, .. }) => Ok(body),
                            Ok(_) => Err("unexpected value".to_string()),
                            Err(e) => Err(format!("{:?}", e)),
                        },
                        Rx::B(r) => r.recv().map_err(|e| format!("{:?}", e)),
                    };
                    (r, x)
                });
                match out {
                    Ok((r, x)) => {
                        rx = Some(r);
                        let d = decode(x);
                        match &d {
                            Res::Msg(q) => taken_upto = Some(*q),
                            Res::Bad(e) => fail!("timed:receive-error", "step {}: blocking recv after {:?} (a message of 160 packets in flight): {}", si, op, e),
                            other => fail!("timed:lost-message", "step {}: the message of 160 packets sent during {:?} was never delivered ({:?})", si, op, other),
                        }
                        extras.push(d);
                    },
                    Err(h) => return Err(sandbox::hang_failure("timed:lost-message", &format!("step {}: a message of 160 packets was being sent while {:?} ran; the blocking recv issued afterwards never returned (the message was lost half-way)", si, op), h)),
                }
                if extras.len() > 64 {
                    fail!("timed:order", "step {}: could not reach the huge message {}", si, huge_seq);
                }
            }
        }
        let during_done: Option<Done> = match during {
            Some(rr) => Some(rr.recv().map_err(|_| Failure::inconclusive("sender thread gone"))?),
            None => None,
        };
        let elapsed = r_at.duration_since(s_at);
        let _ = (s_stamp, r_stamp);
        // --- oracle ---------------------------------------------------------------------------------------------
        let ctx = format!("step {} {:?} / {:?} (queued before the call: {}, sender dropped before: {})", si, op, action, queued, dropped_before);
        match (&op, &res) {
            (_, Res::Bad(e)) => fail!("timed:receive-error", "{}: {}", ctx, e),
            (_, Res::Msg(q)) => {
                ensure!(*q == next_recv, "timed:order", "{}: expected message {} but got {}", ctx, next_recv, q);
                ensure!(next_recv < next_send, "timed:message-from-nowhere", "{}: a message was returned although none was outstanding", ctx);
                next_recv += 1;
                if op == Op::Recv && had_empty {
                    stats.0 += 1;
                }
            },
            (Op::Recv, Res::Empty) => fail!("timed:blocking-recv-returned-empty", "{}: a blocking recv reported Empty", ctx),
            (Op::Recv, Res::Disc) => {
                ensure!(queued == 0, "timed:disconnected-before-backlog", "{}: Disconnected with {} message(s) undelivered", ctx, queued);
                ensure!(sender_dropped, "timed:false-disconnected", "{}: a blocking recv reported Disconnected although the sender is alive", ctx);
                ensure!(!during_is_send, "timed:lost-message", "{}: recv reported Disconnected instead of the racing message", ctx);
            },
            (Op::TryRecv, Res::Empty) | (Op::Timeout(_), Res::Empty) => {
                had_empty = true;
                ensure!(queued == 0, "timed:empty-but-message-pending", "{}: Empty although a message's send had returned before the call started", ctx);
                ensure!(!dropped_before, "timed:empty-but-disconnected", "{}: Empty although the last sender's drop had returned before the call", ctx);
                if let Op::Timeout(ns) = op {
                    let floor_ms = Duration::from_millis((ns / 1_000_000) as u64);
                    ensure!(elapsed >= floor_ms, "timed:returned-early", "{}: reported Empty after {:?}, less than the requested {} ms", ctx, elapsed, floor_ms.as_millis());
                    if let Some(d) = &during_done {
                        // something that had completed before start + floor(d) must have been returned
                        ensure!(d.end_at >= s_at + floor_ms, "timed:missed-event-during-wait", "{}: the racing {} completed {:?} after the call started, within the requested {} ms, yet the call reported Empty", ctx, if during_is_send { "send" } else { "drop" }, d.end_at.duration_since(s_at), floor_ms.as_millis());
                    }
                }
            },
            (Op::TryRecv, Res::Disc) | (Op::Timeout(_), Res::Disc) => {
                ensure!(queued == 0, "timed:disconnected-before-backlog", "{}: Disconnected with {} message(s) undelivered", ctx, queued);
                ensure!(sender_dropped, "timed:false-disconnected", "{}: Disconnected although the sender is alive", ctx);
            },
        }
        for e in &extras {
            if let Res::Msg(q) = e {
                ensure!(*q == next_recv, "timed:order", "step {}: blocking recv returned message {} instead of {}", si, q, next_recv);
                next_recv += 1;
                if had_empty {
                    stats.0 += 1;
                }
            }
        }
        if let Op::Timeout(ns) = op {
            if during_done.is_some() && ns >= 5_000_000 {
                stats.1 += 1;
            }
            if ns < 1_000_000 {
                stats.2 += 1;
            }
        }
    }
    drop(cmd_tx);
    let _ = sender.join();
    // whatever is still outstanding arrives, then Disconnected
    let r = rx.take().unwrap();
    let outstanding = next_send - next_recv;
    let fin = sandbox::watched(move || {
        let mut v = vec![];
        for _ in 0..outstanding + 1 {
            let x = match &r {
                Rx::T(r) => match r.recv() {
                    Ok(Node::Tagged { seq, .. }) => Ok(seq),
                    Ok(_) => Err("unexpected value".to_string()),
                    Err(e) => Err(format!("{:?}", e)),
                },
                Rx::B(r) => match r.recv() {
                    Ok(b) => payload::parse(&b).map(|p| p.seq),
                    Err(e) => Err(format!("{:?}", e)),
                },
            };
            v.push(x);
        }
        v
    });
    let fin = match fin {
        Ok(v) => v,
        Err(h) => return Err(sandbox::hang_failure("timed:final-drain-hangs", "draining the channel after the sender thread dropped its handle", h)),
    };
    for (k, x) in fin.iter().enumerate() {
        if (k as u32) < outstanding {
            ensure!(*x == Ok(next_recv + k as u32), "timed:lost-message", "outstanding message {} was not delivered at the end: {:?}", next_recv + k as u32, x);
        } else {
            ensure!(matches!(x, Err(e) if e.contains("Disconnected")), "timed:no-disconnect", "after everything the channel yielded {:?} instead of Disconnected", x);
        }
    }
    let nt = stats.0 > 0 || stats.1 > 0 || stats.2 > 0;
    let class = format!(
        "{}{}{}{}",
        if case.bytes { "bytes" } else { "typed" },
        if stats.0 > 0 { "+recv-after-empty" } else { "" },
        if stats.1 > 0 { "+event-during-timed-wait" } else { "" },
        if stats.2 > 0 { "+sub-ms-timeout" } else { "" }
    );
    Ok(Outcome::new(nt, class).with("steps", case.steps.len() as u64))
}
