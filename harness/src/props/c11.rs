//! C11 - no descriptor, mapping or file is leaked, closed twice or inherited.
//!
//! Generated operation sequences over the whole public API - world-model programs (channels, bytes
//! channels, regions, sets, one-shot servers, clones, sends of all sizes with mixed attachments,
//! receives, transfers, drops in generated order) interleaved with the failure paths and background
//! machinery: connect to a non-existent and to a stale name, sends whose serialisation fails after
//! some attachments, messages dropped undecoded, router routes, router start/shutdown cycles -
//! repeated r times to amplify one-per-operation leaks.  At generated moments sentinel descriptors
//! (dups of /dev/null, planted with raw system calls into every free descriptor number) turn a
//! stale or double close into a recorded event, and an unrelated child process is spawned
//! (`ipcv helper fdlist`) which reports what it inherited.
//! Oracle: after every handle is dropped and background threads have quiesced, /proc/self/fd, the
//! shared-memory lines of /proc/self/maps and the TMPDIR listing equal the snapshot taken before;
//! the close ledger shows no EBADF close and no close of a sentinel; the child saw nothing but
//! 0/1/2.

use crate::engine::{Ctx, Failure, Outcome, Prop};
use crate::fdsnap;
use crate::interpose as ip;
use crate::node::Node;
use crate::payload;
use crate::props::{c01, c16};
use crate::sandbox;
use crate::world::{self, Op, World};
use crate::{ensure, fail};
use ipc_channel::ipc::{self, IpcReceiverSet, IpcSelectionResult, IpcSender, IpcSharedMemory};
use ipc_channel::router::{RouterProxy, ROUTER};
use proptest::prelude::*;
use serde::ser::Serializer;
use serde::{Deserialize, Serialize};
use std::sync::atomic::Ordering::SeqCst;
use std::time::Duration;

pub struct C11;

#[derive(Clone, Debug, Serialize, Deserialize)]
pub enum Op11 {
    W(Op),
    ConnectMissing,
    ConnectStale,
    FailSend { attach: u8 },
    UndecodedDrop { attach: u8, multi: bool },
    Route { msgs: u8 },
    ProxyCycle { routes: u8 },
    /// a message with `attach` attachments is received by a process that has only `free`
    /// descriptor numbers left (RLIMIT_NOFILE): whatever the receive returns, nothing the kernel
    /// installed may stay behind
    FdLimit { attach: u8, free: u8 },
    /// connect to a name that does not exist and is `len` bytes long (longer than a socket address holds)
    ConnectLong { len: u16 },
    /// channel ends, a region and a receiver set dropped by an unwinding (panicking) owner
    PanicDrop { with_set: bool },
    /// a private router proxy that is dropped without shutdown(), while `keep` of its routes
    /// still have a live sender: its thread, poller and routed receivers must be released
    ProxyDrop { routes: u8, keep: u8 },
    SpawnChild,
    Plant,
    RegionCloneDrop { len: u32 },
    SendToClosed { attach: u8, multi: bool },
    /// a forked sender is killed before its k-th transmission of a multi-packet message with
    /// attachments; the receiver then reads what there is and drops everything
    KilledSender { attach: u8, k: u8 },
}

#[derive(Clone, Debug, Serialize, Deserialize)]
pub struct Case {
    pub ops: Vec<Op11>,
    pub repeat: u16,
    /// descriptor number 0 is free whenever the library receives (the process "has no stdin"):
    /// received endpoints and whatever is created next land on number 0
    #[serde(default)]
    pub fd0: bool,
}

/// serialises its nodes, then reports an error
struct Failing(Vec<Node>);
impl Serialize for Failing {
    fn serialize<S: Serializer>(&self, s: S) -> Result<S::Ok, S::Error> {
        use serde::ser::SerializeSeq;
        let mut seq = s.serialize_seq(Some(self.0.len() + 1))?;
        for n in &self.0 {
            seq.serialize_element(n)?;
        }
        Err(serde::ser::Error::custom("scripted failure"))
    }
}
impl<'de> Deserialize<'de> for Failing {
    fn deserialize<D: serde::Deserializer<'de>>(_d: D) -> Result<Self, D::Error> {
        Err(serde::de::Error::custom("never decoded"))
    }
}

pub fn helper_fdlist() -> i32 {
    // print "<fd> <target>" for every descriptor this (freshly exec'ed) process has
    for (fd, t) in fdsnap::fd_map() {
        println!("{} {}", fd, t);
    }
    0
}

fn attachments(n: u8) -> Vec<Node> {
    let mut v = vec![];
    for i in 0..n {
        match i % 3 {
            0 => {
                let (t, _r) = ipc::channel::<Node>().unwrap();
                v.push(Node::Tx(t));
            },
            1 => {
                let (_t, r) = ipc::channel::<Node>().unwrap();
                v.push(Node::Rx(r));
            },
            _ => v.push(Node::Shm(IpcSharedMemory::from_bytes(&payload::stream(i as u64, 5000 + i as usize)))),
        }
    }
    v
}

fn big_body(multi: bool) -> Node {
    let (f1, f) = c01::capacities();
    let len = if multi && f1 <= 16384 { f1 + 2 * f + 11 } else { 300 };
    Node::Bytes(payload::stream(9, len))
}

impl Prop for C11 {
    type Case = Case;
    const ID: &'static str = "C11";

    fn setup(ctx: &Ctx) {
        c01::measure_capacities_for(ctx);
        let _ = ip::shared();
        c16::warm_up_router();
        // warm-up: touch every lazily initialised piece once
        let warm = Case {
            ops: vec![
                Op11::W(Op::NewChan),
                Op11::W(Op::Send { tx: 0, size: world::Size::Multi(2), tree: crate::node::NP::Shm { len: 100, seed: 1, fill: None } }),
                Op11::W(Op::Recv { rx: 0, mode: 0 }),
                Op11::W(Op::SetNew),
                Op11::W(Op::SrvNew),
                Op11::Route { msgs: 1 },
                Op11::ProxyCycle { routes: 1 },
                Op11::UndecodedDrop { attach: 3, multi: true },
                Op11::FailSend { attach: 2 },
                Op11::SpawnChild,
            ],
            repeat: 1,
            fd0: false,
        };
        let _ = run(&warm, true);
    }

    fn cases(ctx: &Ctx) -> u32 {
        ctx.param_u64("cases", ctx.pick(1500, 30000) as u64) as u32
    }

    fn strategy(ctx: &Ctx) -> BoxedStrategy<Case> {
        let max_len = if ctx.thorough { 400 } else { 60 };
        //                              create clone droptx droprx send recv region set server remote
        let w = world::op_strategy([3, 2, 2, 2, 8, 5, 2, 2, 2, 0]).prop_map(Op11::W);
        let extra = prop_oneof![
            2 => Just(Op11::ConnectMissing),
            1 => Just(Op11::ConnectStale),
            1 => prop_oneof![90u16..130, 130u16..6000].prop_map(|len| Op11::ConnectLong { len }),
            2 => (0u8..6).prop_map(|attach| Op11::FailSend { attach }),
            2 => (0u8..7, any::<bool>()).prop_map(|(attach, multi)| Op11::UndecodedDrop { attach, multi }),
            2 => (0u8..5).prop_map(|msgs| Op11::Route { msgs }),
            1 => (0u8..3).prop_map(|routes| Op11::ProxyCycle { routes }),
            1 => (0u8..4, 0u8..4).prop_map(|(routes, keep)| Op11::ProxyDrop { routes, keep }),
            1 => Just(Op11::SpawnChild),
            1 => (2u8..9, 0u8..9).prop_map(|(attach, free)| Op11::FdLimit { attach, free }),
            1 => any::<bool>().prop_map(|with_set| Op11::PanicDrop { with_set }),
            1 => Just(Op11::Plant),
            1 => (1u32..20000).prop_map(|len| Op11::RegionCloneDrop { len }),
            2 => (0u8..6, any::<bool>()).prop_map(|(attach, multi)| Op11::SendToClosed { attach, multi }),
            2 => (1u8..6, 0u8..6).prop_map(|(attach, k)| Op11::KilledSender { attach, k }),
        ];
        let op = prop_oneof![5 => w, 3 => extra];
        let repeat = if ctx.thorough { prop_oneof![8 => Just(1u16), 2 => 2u16..20, 1 => 20u16..100].boxed() } else { prop_oneof![8 => Just(1u16), 2 => 2u16..6].boxed() };
        (proptest::collection::vec(op, 1..max_len), repeat, prop_oneof![3 => Just(false), 1 => Just(true)])
            .prop_map(|(ops, repeat, fd0)| {
                // the amplification product of generated cases stays bounded (the long repetitions
                // are the enumerated cases below)
                let repeat = repeat.min((4000 / ops.len().max(1)) as u16).max(1);
                Case { ops, repeat, fd0 }
            })
            .boxed()
    }

    fn enumerated(ctx: &Ctx) -> Vec<Case> {
        // amplification: every operation kind that has a failure or release path of its own,
        // repeated many times on its own (a leak of one descriptor per operation exhausts nothing
        // in a short sequence but is unmistakable in the snapshot after thousands)
        let (fast, slow) = if ctx.thorough { (30000u16, 3000u16) } else { (300u16, 40u16) };
        vec![
            Case { ops: vec![Op11::ConnectMissing], repeat: fast, fd0: false },
            Case { ops: vec![Op11::ConnectStale], repeat: slow, fd0: false },
            Case { ops: vec![Op11::ConnectLong { len: 107 }, Op11::ConnectLong { len: 108 }, Op11::ConnectLong { len: 300 }], repeat: fast, fd0: false },
            Case { ops: vec![Op11::FailSend { attach: 4 }], repeat: fast, fd0: false },
            Case { ops: vec![Op11::SendToClosed { attach: 3, multi: true }], repeat: fast, fd0: false },
            Case { ops: vec![Op11::RegionCloneDrop { len: 5000 }], repeat: fast, fd0: false },
            Case { ops: vec![Op11::UndecodedDrop { attach: 5, multi: true }], repeat: slow, fd0: false },
            Case { ops: vec![Op11::Route { msgs: 2 }], repeat: slow, fd0: false },
            Case { ops: vec![Op11::ProxyCycle { routes: 2 }], repeat: slow, fd0: false },
            Case { ops: vec![Op11::ProxyDrop { routes: 2, keep: 1 }], repeat: slow, fd0: false },
            Case { ops: vec![Op11::KilledSender { attach: 3, k: 2 }], repeat: slow, fd0: false },
            Case { ops: vec![Op11::W(Op::SrvNew), Op11::W(Op::SrvConnect(65535)), Op11::W(Op::Send { tx: 65535, size: world::Size::Tiny, tree: crate::node::NP::Unit }), Op11::W(Op::SrvAccept(65535))], repeat: slow, fd0: false },
            Case { ops: vec![Op11::W(Op::SrvNew), Op11::W(Op::SrvDrop(65535))], repeat: slow, fd0: false },
        ]
    }

    fn exec(_ctx: &Ctx, case: &Case) -> Result<Outcome, Failure> {
        run(case, false)
    }
}

fn thread_count() -> usize {
    std::fs::read_dir("/proc/self/task").map(|d| d.count()).unwrap_or(0)
}

/// A private router's thread ends asynchronously; everything it owns is released by then.
/// Wait (bounded) until the number of threads is back to what it was before the proxy existed.
fn wait_for_threads(baseline: usize) -> bool {
    let t0 = std::time::Instant::now();
    while thread_count() > baseline {
        if t0.elapsed() > Duration::from_secs(sandbox::watchdog_secs()) {
            return false;
        }
        std::thread::sleep(Duration::from_micros(200));
    }
    true
}

struct Sentinels(Vec<i32>);
impl Sentinels {
    fn plant(&mut self) {
        // fill every free descriptor number below (highest open + 6) with a dup of /dev/null
        // (number 0 is not a sentinel: it has its own placeholder)
        fdsnap::fd0::refill();
        let open = fdsnap::fd_map();
        let top = open.keys().max().copied().unwrap_or(2) + 6;
        let null = unsafe { libc::syscall(libc::SYS_openat, libc::AT_FDCWD, b"/dev/null\0".as_ptr(), libc::O_RDONLY | libc::O_CLOEXEC) as i32 };
        if null < 0 {
            return;
        }
        for fd in 3..top.min(4000) {
            if fd != null && !open.contains_key(&fd) {
                if ip::raw_dup_to(null, fd) == fd {
                    ip::sentinel_set(fd, true);
                    self.0.push(fd);
                }
            }
        }
        // `null` itself becomes a sentinel too
        ip::sentinel_set(null, true);
        self.0.push(null);
    }
    fn remove(&mut self) {
        for fd in self.0.drain(..) {
            ip::sentinel_set(fd, false);
            ip::raw_close(fd);
        }
    }
}

fn run(case: &Case, warmup: bool) -> Result<Outcome, Failure> {
    let os = !cfg!(feature = "inproc");
    let snap0 = fdsnap::snapshot();
    let ebadf0 = ip::N_EBADF_CLOSE.load(SeqCst);
    let sent0 = ip::N_SENTINEL_CLOSE.load(SeqCst);
    let (f1, f) = c01::capacities();
    let mut sentinels = Sentinels(vec![]);
    let mut kinds = std::collections::BTreeSet::new();
    let mut failing_ops = 0;
    let mut children = 0;
    let result = (|| -> Result<(), Failure> {
        for _rep in 0..case.repeat {
            let mut w = World::new(f1, f);
            w.fd0_before_receives = case.fd0 && os;
            let mut stale_names: Vec<String> = vec![];
            for op in &case.ops {
                match op {
                    Op11::W(o) => {
                        if matches!(o, Op::SetNew | Op::SetAdd { .. } | Op::SetSelect(_)) {
                            kinds.insert("set");
                        }
                        if matches!(o, Op::Send { .. }) && w.stats.endpoint_transfers > 0 {
                            kinds.insert("transfer");
                        }
                        w.step(o)?;
                    },
                    Op11::ConnectMissing => {
                        if os {
                            failing_ops += 1;
                            let r = IpcSender::<Node>::connect(format!("{}/no-such-dir/socket", std::env::var("TMPDIR").unwrap_or_default()));
                            ensure!(r.is_err(), "leak:connect-to-missing-name-succeeded", "connect to a name that does not exist returned Ok");
                        }
                    },
                    Op11::ConnectStale => {
                        if os {
                            failing_ops += 1;
                            // a server that is created and dropped leaves a name that is no longer served
                            let (srv, name) = ipc::IpcOneShotServer::<Node>::new().map_err(|e| Failure::inconclusive(e.to_string()))?;
                            drop(srv);
                            stale_names.push(name.clone());
                            let r = IpcSender::<Node>::connect(name);
                            ensure!(r.is_err(), "leak:connect-to-stale-name-succeeded", "connect to the name of a dropped server returned Ok");
                        }
                    },
                    Op11::FdLimit { attach, free } => {
                        if os {
                            failing_ops += 1;
                            kinds.insert("fd-limit");
                            let (attach, free) = (*attach, *free);
                            let child = sandbox::fork_child(move |w| {
                                use std::io::Write;
                                let base = fdsnap::count_fds();
                                let (tx, rx) = match ipc::channel::<Node>() {
                                    Ok(x) => x,
                                    Err(_) => return 9,
                                };
                                let mut items = attachments(attach);
                                items.push(Node::U32(7));
                                if tx.send(Node::List(items)).is_err() {
                                    return 9;
                                }
                                // leave exactly `free` descriptor numbers below the limit (the limit is
                                // on descriptor *numbers*: it sits above everything that is open now,
                                // sentinels included; counting needs a descriptor itself, so the fill
                                // level is tracked by arithmetic)
                                let open_now = fdsnap::fd_map();
                                let highest = open_now.keys().max().copied().unwrap_or(2) as u64;
                                let limit: u64 = highest + 1 + 24;
                                let lim = libc::rlimit { rlim_cur: limit, rlim_max: limit };
                                if unsafe { libc::setrlimit(libc::RLIMIT_NOFILE, &lim) } != 0 {
                                    return 9;
                                }
                                let mut fillers = vec![];
                                let mut in_use = open_now.len() as u64;
                                while in_use + (free as u64) < limit {
                                    let fd = unsafe { libc::dup(2) };
                                    if fd < 0 {
                                        break;
                                    }
                                    fillers.push(fd);
                                    in_use += 1;
                                }
                                let got = rx.try_recv();
                                drop(got);
                                for fd in fillers {
                                    ip::raw_close(fd);
                                }
                                drop(rx);
                                drop(tx);
                                let end = fdsnap::count_fds();
                                if end == 0 {
                                    return 9; // could not even list the descriptor table
                                }
                                if end != base {
                                    let _ = write!(w, "{} descriptors before, {} after ({} attachments, {} free numbers): {:?}", base, end, attach, free, fdsnap::fd_map());
                                    return 3;
                                }
                                0
                            });
                            let (end, report) = child.wait(Duration::from_secs(sandbox::watchdog_secs()));
                            match end {
                                sandbox::ChildEnd::Exited(0) => {},
                                sandbox::ChildEnd::Exited(3) => fail!("leak:descriptors", "a message was received by a process that was short of descriptor numbers; afterwards {}", String::from_utf8_lossy(&report)),
                                sandbox::ChildEnd::Exited(9) | sandbox::ChildEnd::TimedOut => {},
                                other => fail!("leak:receive-under-descriptor-shortage-crashed", "the receiving process ended {:?}: {}", other, String::from_utf8_lossy(&report)),
                            }
                        }
                    },
                    Op11::ConnectLong { len } if !os => {
                        let _ = len;
                    },
                    Op11::ConnectLong { len } => {
                        failing_ops += 1;
                        let name: String = std::iter::repeat("/nonexistent-ipcv").flat_map(|s| s.chars()).take(*len as usize).collect();
                        let r = IpcSender::<Node>::connect(name);
                        ensure!(r.is_err(), "leak:connect-to-missing-name-succeeded", "connect to a {}-byte name that nobody serves returned Ok", len);
                    },
                    Op11::FailSend { attach } => {
                        failing_ops += 1;
                        let (tx, rx) = ipc::channel::<Node>().map_err(|e| Failure::inconclusive(e.to_string()))?;
                        let ftx: IpcSender<Failing> = tx.to_opaque().to();
                        let r = ftx.send(Failing(attachments(*attach)));
                        ensure!(r.is_err(), "leak:failing-serialisation-sent", "a value whose serialisation fails was sent");
                        drop(ftx);
                        drop(rx);
                    },
                    Op11::UndecodedDrop { attach, multi } => {
                        kinds.insert("undecoded-drop");
                        let (tx, rx) = ipc::channel::<Node>().map_err(|e| Failure::inconclusive(e.to_string()))?;
                        let mut items = attachments(*attach);
                        items.push(big_body(*multi));
                        let sender = std::thread::spawn(move || {
                            let r = tx.send(Node::List(items));
                            drop(tx);
                            r.is_ok()
                        });
                        let mut set = IpcReceiverSet::new().map_err(|e| Failure::inconclusive(e.to_string()))?;
                        set.add(rx).map_err(|e| Failure::inconclusive(e.to_string()))?;
                        if case.fd0 && os {
                            fdsnap::fd0::free();
                        }
                        let out = sandbox::watched(move || {
                            let mut closed = false;
                            let mut got = 0;
                            while !closed {
                                match set.select() {
                                    Ok(evs) => {
                                        for e in evs {
                                            match e {
                                                IpcSelectionResult::MessageReceived(_, m) => {
                                                    got += 1;
                                                    drop(m); // never decoded
                                                },
                                                IpcSelectionResult::ChannelClosed(_) => closed = true,
                                            }
                                        }
                                    },
                                    Err(_) => break,
                                }
                            }
                            got
                        });
                        let _ = sender.join();
                        match out {
                            Ok(_) => {},
                            Err(h) => return Err(sandbox::hang_failure("leak:select-hangs", "select on a one-member set whose sender sent one message and dropped", h)),
                        }
                    },
                    Op11::Route { msgs } => {
                        kinds.insert("router");
                        struct Guard(crossbeam_channel::Sender<()>);
                        impl Drop for Guard {
                            fn drop(&mut self) {
                                let _ = self.0.send(());
                            }
                        }
                        let (tx, rx) = ipc::channel::<Node>().map_err(|e| Failure::inconclusive(e.to_string()))?;
                        let (gtx, grx) = crossbeam_channel::unbounded();
                        let g = Guard(gtx);
                        ROUTER.add_route(
                            rx.to_opaque(),
                            Box::new(move |m| {
                                let _ = &g;
                                drop(m)
                            }),
                        );
                        for k in 0..*msgs {
                            let mut items = attachments(k % 4);
                            items.push(Node::U32(k as u32));
                            tx.send(Node::List(items)).map_err(|e| Failure::new("leak:routed-send-failed", e.to_string()))?;
                        }
                        drop(tx);
                        if grx.recv_timeout(Duration::from_secs(sandbox::watchdog_secs())).is_err() {
                            fail!("leak:route-never-released", "the router did not release a route whose sender was dropped");
                        }
                    },
                    Op11::ProxyCycle { routes } => {
                        kinds.insert("router");
                        let threads0 = thread_count();
                        let p = RouterProxy::new();
                        let mut keep = vec![];
                        for _ in 0..*routes {
                            let (tx, rx) = ipc::channel::<Node>().map_err(|e| Failure::inconclusive(e.to_string()))?;
                            let crx = p.route_ipc_receiver_to_new_crossbeam_receiver(rx);
                            let _ = tx.send(Node::Unit);
                            keep.push((tx, crx));
                        }
                        p.shutdown();
                        drop(p);
                        drop(keep);
                        ensure!(wait_for_threads(threads0), "leak:router-thread-remains", "the thread of a private router is still there after shutdown() and the drop of its proxy");
                    },
                    Op11::ProxyDrop { routes, keep } => {
                        kinds.insert("router");
                        struct Guard(crossbeam_channel::Sender<()>);
                        impl Drop for Guard {
                            fn drop(&mut self) {
                                let _ = self.0.send(());
                            }
                        }
                        let threads0 = thread_count();
                        let p = RouterProxy::new();
                        let (gtx, grx) = crossbeam_channel::unbounded();
                        let mut live = vec![];
                        for i in 0..*routes {
                            let (tx, rx) = ipc::channel::<Node>().map_err(|e| Failure::inconclusive(e.to_string()))?;
                            let g = Guard(gtx.clone());
                            p.add_route(
                                rx.to_opaque(),
                                Box::new(move |m| {
                                    let _ = &g;
                                    drop(m)
                                }),
                            );
                            let _ = tx.send(Node::U32(i as u32));
                            if i < *keep {
                                live.push(tx);
                            }
                        }
                        drop(gtx);
                        drop(p);
                        // the stopping router drops every handler: wait for that (bounded), then the
                        // descriptor comparison at the end of the case judges what it left behind
                        for _ in 0..*routes {
                            if grx.recv_timeout(Duration::from_secs(sandbox::watchdog_secs())).is_err() {
                                fail!("leak:router-of-dropped-proxy-keeps-running", "a RouterProxy was dropped without shutdown(); its router still holds a route's handler (and with it its thread, poller and receivers)");
                            }
                        }
                        ensure!(wait_for_threads(threads0), "leak:router-thread-remains", "the thread of a private router whose proxy was dropped is still there after it released its handlers");
                        drop(live);
                    },
                    Op11::PanicDrop { with_set } => {
                        let (tx, rx) = ipc::channel::<Node>().map_err(|e| Failure::inconclusive(e.to_string()))?;
                        let (tx2, rx2) = ipc::channel::<Node>().map_err(|e| Failure::inconclusive(e.to_string()))?;
                        let with_set = *with_set;
                        let _ = std::panic::catch_unwind(std::panic::AssertUnwindSafe(move || {
                            let region = IpcSharedMemory::from_bytes(&payload::stream(7, 5000));
                            let _ = tx.send(Node::List(vec![Node::Shm(region.clone()), Node::Tx(tx2)]));
                            let mut set = IpcReceiverSet::new().unwrap();
                            let _owned = (tx, region);
                            if with_set {
                                set.add(rx).unwrap();
                                set.add(rx2).unwrap();
                                let _ = set.select();
                            } else {
                                let _got = rx.recv();
                                let _keep = rx2;
                                std::panic::panic_any("intended: the owner of these handles unwinds");
                            }
                            std::panic::panic_any("intended: the owner of these handles unwinds");
                        }));
                        let _ = crate::take_panics();
                    },
                    Op11::SpawnChild => {
                        if os {
                            children += 1;
                            let exe = std::env::current_exe().map_err(|e| Failure::inconclusive(e.to_string()))?;
                            let out = std::process::Command::new(exe).args(["helper", "fdlist"]).stdin(std::process::Stdio::null()).stderr(std::process::Stdio::null()).output().map_err(|e| Failure::inconclusive(format!("spawn: {}", e)))?;
                            let text = String::from_utf8_lossy(&out.stdout).to_string();
                            for line in text.lines() {
                                let (fd, target) = line.split_once(' ').unwrap_or((line, ""));
                                let fd: i32 = fd.parse().unwrap_or(-1);
                                if fd > 2 {
                                    fail!("leak:descriptor-inherited-by-child", "an unrelated child process inherited descriptor {} -> {} (held by the library without close-on-exec at the moment of the spawn)", fd, target);
                                }
                            }
                        }
                    },
                    Op11::Plant => {
                        if os {
                            sentinels.plant();
                        }
                    },
                    Op11::RegionCloneDrop { len } => {
                        let r = IpcSharedMemory::from_bytes(&payload::stream(*len as u64, *len as usize));
                        let c = r.clone();
                        let c2 = c.clone();
                        drop(r);
                        ensure!(c2.len() == *len as usize, "leak:region-clone-length", "clone has {} bytes", c2.len());
                        drop(c);
                        drop(c2);
                    },
                    Op11::KilledSender { attach, k } => {
                        if os && f1 <= 16384 {
                            failing_ops += 1;
                            kinds.insert("killed-sender");
                            let (tx, rx) = ipc::channel::<Node>().map_err(|e| Failure::inconclusive(e.to_string()))?;
                            let (attach, k) = (*attach, *k);
                            let child = sandbox::fork_child(move |_w| {
                                let mut items = attachments(attach);
                                items.push(Node::Bytes(payload::stream(3, f1 + 3 * f + 5)));
                                // crash points count socketpair / sendmsg / send / close calls
                                ip::arm(ip::gettid(), 0, k as i64 + 1);
                                let _ = tx.send(Node::List(items));
                                0
                            });
                            let _ = child.wait(Duration::from_secs(sandbox::watchdog_secs()));
                            // whatever arrived (a whole message, or nothing after an abandoned one) is dropped
                            if case.fd0 {
                                fdsnap::fd0::free();
                            }
                            let got = sandbox::watched(move || {
                                let r = rx.try_recv();
                                drop(r);
                                drop(rx);
                            });
                            if let Err(h) = got {
                                return Err(sandbox::hang_failure("leak:receive-hangs", "try_recv after the only sender process was killed mid-message", h));
                            }
                        }
                    },
                    Op11::SendToClosed { attach, multi } => {
                        failing_ops += 1;
                        let (tx, rx) = ipc::channel::<Node>().map_err(|e| Failure::inconclusive(e.to_string()))?;
                        drop(rx);
                        let mut items = attachments(*attach);
                        items.push(big_body(*multi));
                        let r = tx.send(Node::List(items));
                        ensure!(r.is_err(), "leak:send-to-closed-succeeded", "send to a closed receiver returned Ok");
                    },
                }
            }
            w.release_all()?;
            drop(w);
            let _ = stale_names;
        }
        Ok(())
    })();
    sentinels.remove();
    let fd0_used = fdsnap::fd0::was_freed();
    let fd0_end = if matches!(&result, Err(f) if f.poisoned) {
        // a thread of the case is still stuck somewhere: leave the descriptor table alone
        Ok(())
    } else {
        fdsnap::fd0::restore()
    };
    result?;
    if let Err(what) = fd0_end {
        return Err(Failure::new("leak:descriptors", format!("descriptor number 0 was free while the case received (a process without stdin); after every handle was dropped ({} operations x {} repetitions) number 0 is still occupied by {}", case.ops.len(), case.repeat, what)).poisoned());
    }
    if warmup {
        return Ok(Outcome::new(false, "warmup"));
    }
    // ---- oracle -----------------------------------------------------------------------------------------
    let ebadf = ip::N_EBADF_CLOSE.load(SeqCst) - ebadf0;
    let sent = ip::N_SENTINEL_CLOSE.load(SeqCst) - sent0;
    ensure!(sent == 0, "leak:closed-a-descriptor-it-does-not-own", "the library closed {} descriptor number(s) it had already released (a sentinel planted there was hit; last: fd {})", sent, ip::LAST_BAD_CLOSE_FD.load(SeqCst));
    ensure!(ebadf == 0, "leak:double-close", "{} close() call(s) failed with EBADF (descriptor closed twice; last: fd {})", ebadf, ip::LAST_BAD_CLOSE_FD.load(SeqCst));
    if os {
        // background threads (global router) release asynchronously only what they were waiting on via
        // guards above; everything else is synchronous - compare right away, retry briefly for safety
        let mut snap1 = fdsnap::snapshot();
        for _ in 0..50 {
            if snap1.fds.len() == snap0.fds.len() && snap1.maps.len() == snap0.maps.len() && snap1.tmp == snap0.tmp {
                break;
            }
            std::thread::sleep(Duration::from_millis(2));
            snap1 = fdsnap::snapshot();
        }
        let d = fdsnap::diff(&snap0, &snap1);
        ensure!(snap1.fds.len() == snap0.fds.len(), "leak:descriptors", "after every handle was dropped ({} operations x {} repetitions): {}", case.ops.len(), case.repeat, d);
        ensure!(snap1.maps.len() == snap0.maps.len(), "leak:mappings", "shared-memory mappings remain: {}", d);
        ensure!(snap1.tmp == snap0.tmp, "leak:files", "temporary files remain: {}", d);
    }
    let nt = (failing_ops > 0 || kinds.contains("transfer") || kinds.contains("router") || kinds.contains("set")) && case.ops.len() >= 20;
    let class = format!(
        "{}{}{}{}{}{}",
        if case.ops.len() >= 20 { "long" } else { "short" },
        if failing_ops > 0 { "+failing-ops" } else { "" },
        if kinds.contains("router") { "+router" } else { "" },
        if kinds.contains("undecoded-drop") { "+undecoded-drop" } else { "" },
        if children > 0 { "+child-spawn" } else { "" },
        if case.repeat > 1 { "+repeated" } else { "" }
    )
    .replace("long", if fd0_used { "fd0-in-use/long" } else { "long" })
    .replace("short", if fd0_used { "fd0-in-use/short" } else { "short" });
    Ok(Outcome::new(nt, class).with("operations", (case.ops.len() as u64) * case.repeat as u64).with("children_spawned", children))
}
