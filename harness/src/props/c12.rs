//! C12 - a sender crashing mid-send cannot corrupt a message or falsely close a channel.
//!
//! Fault enumeration over crash points: the sender is a forked child which, after sending M
//! complete messages, arms `die_before = k` and performs the fatal send; the interposed
//! socketpair/sendmsg/send/close wrappers SIGKILL the process immediately before its k-th
//! intercepted call.  k is enumerated from 0 up to past the last call of the send (where the child
//! simply exits after a complete send).  Packets are 4 KiB (send-buffer lie), so the send never
//! blocks.  Afterwards a surviving sender handle (if any) sends S more messages and is dropped.
//! Oracle: the M earlier messages arrive intact and first; the fatal message is delivered intact or
//! not as a message at all (at most one error result that is not a *false* Disconnected); with a
//! survivor no Disconnected / ChannelClosed / handler drop before the survivor's messages have
//! arrived, then closure; without a survivor closure is reported; never a hang.

use crate::engine::{Ctx, Failure, Outcome, Prop};
use crate::interpose as ip;
use crate::node::{self, Node};
use crate::payload;
use crate::props::c01;
use crate::sandbox::{self, ChildEnd};
use crate::{ensure, fail};
use ipc_channel::ipc::{self, IpcError, IpcReceiver, IpcReceiverSet, IpcSelectionResult, IpcSender, IpcSharedMemory, TryRecvError};
use ipc_channel::router::ROUTER;
use proptest::prelude::*;
use serde::{Deserialize, Serialize};
use std::time::Duration;

pub struct C12;

#[derive(Clone, Debug, Serialize, Deserialize)]
pub struct Case {
    pub packets: u8,
    pub attach: bool,
    pub before: u8,
    pub survivor: bool,
    /// 0 blocking recv, 1 try_recv loop, 2 receiver set, 3 router route
    pub observer: u8,
    /// observer already waiting while the sender runs and dies (modes 0 and 2)
    pub concurrent: bool,
    pub k: u8,
    /// (observers 1..3, not concurrent) the observer looks at the channel once *before* the
    /// survivor sends: a non-blocking receive must come back, and a set / the router must keep
    /// serving their other members, while nothing complete is queued behind the abandoned message
    #[serde(default)]
    pub poll_first: bool,
}

#[derive(Debug, Clone)]
enum Ev {
    Msg(u32, u32),
    Corrupt(String),
    Err(#[allow(dead_code)] String),
    Closed,
}

fn decode(n: Node) -> Ev {
    let tagged = match n {
        Node::Tagged { sender, seq, body, .. } => Some((sender, seq, body)),
        Node::List(v) => {
            let mut tagged = None;
            let mut reply_to = vec![];
            let mut regions = vec![];
            for x in v {
                match x {
                    Node::Tagged { sender, seq, body, .. } => tagged = Some((sender, seq, body)),
                    Node::Tx(t) => reply_to.push(t),
                    Node::Shm(r) => regions.push(r),
                    _ => {},
                }
            }
            if let Some((sender, seq, _)) = &tagged {
                for r in &regions {
                    if &r[..] != &payload::stream(1000 * *sender as u64 + *seq as u64 + 9, 3000 + *seq as usize)[..] {
                        return Ev::Corrupt(format!("message ({},{}) arrived with a shared-memory region that is not its own ({} bytes)", sender, seq, r.len()));
                    }
                }
                if regions.len() != 1 {
                    return Ev::Corrupt(format!("message ({},{}) arrived with {} regions instead of its one", sender, seq, regions.len()));
                }
            }
            // answer through the sender that arrived *with this message*: the parent checks that
            // the answers come out of the channel that was attached to exactly this message
            if let Some((sender, seq, _)) = &tagged {
                for t in reply_to {
                    let _ = t.send(Node::U64(1000 * *sender as u64 + *seq as u64));
                }
            }
            tagged
        },
        _ => None,
    };
    match tagged {
        Some((sender, seq, body)) => match payload::parse(&body) {
            Ok(p) if p.sender == sender && p.seq == seq => Ev::Msg(sender, seq),
            Ok(p) => Ev::Corrupt(format!("tag says ({},{}) but the body belongs to ({},{})", sender, seq, p.sender, p.seq)),
            Err(e) => Ev::Corrupt(e),
        },
        None => Ev::Corrupt("value of an unexpected shape".into()),
    }
}

fn body_len(packets: u8) -> usize {
    let (f1, f) = c01::capacities();
    match packets {
        0 | 1 => 200,
        k => f1 + (k as usize - 2) * f + f / 2,
    }
}

fn message(sender: u32, seq: u32, packets: u8, attach: bool, probe: Option<&IpcSender<Node>>) -> Node {
    let body = payload::make(0, sender, seq, body_len(packets), (sender * 100 + seq) as u64 + 1);
    let t = Node::Tagged { chan: 0, sender, seq, body };
    if attach {
        // region contents are specific to (sender, seq): a region that arrives with another
        // message's content was mis-assigned
        Node::List(vec![t, Node::Tx(probe.unwrap().clone()), Node::Shm(IpcSharedMemory::from_bytes(&payload::stream(1000 * sender as u64 + seq as u64 + 9, 3000 + seq as usize)))])
    } else {
        t
    }
}

impl Prop for C12 {
    type Case = Case;
    const ID: &'static str = "C12";

    fn setup(_ctx: &Ctx) {
        c01::measure_capacities();
        let _ = ip::shared();
        // the global router must exist before the first fork that happens with other threads around
        if !cfg!(feature = "inproc") {
            let _ = &*ROUTER;
        }
    }

    fn cases(ctx: &Ctx) -> u32 {
        ctx.param_u64("cases", ctx.pick(1500, 3000) as u64) as u32
    }

    fn strategy(_ctx: &Ctx) -> BoxedStrategy<Case> {
        // the crash index is drawn relative to the number of calls of the send, half of the time
        // strictly inside the transfer (2..=packets), so that the interesting region is not rare
        (prop_oneof![1 => Just(1u8), 5 => 2u8..=6, 2 => 7u8..=12], any::<bool>(), 0u8..=5, any::<bool>(), 0u8..4, any::<bool>(), any::<bool>(), 0u16..=255, any::<bool>())
            .prop_map(|(packets, attach, before, survivor, observer, concurrent, inside, kf, poll_first)| {
                let k = if inside && packets >= 2 { 2 + ((kf as u32 * (packets as u32 - 1)) >> 8) as u8 } else { ((kf as u32 * (packets as u32 + 10)) >> 8) as u8 };
                Case { packets, attach, before, survivor, observer, concurrent, k, poll_first }
            })
            .boxed()
    }

    fn enumerated(ctx: &Ctx) -> Vec<Case> {
        let mut v = vec![];
        let shapes: &[u8] = if ctx.thorough { &[1, 2, 3, 4, 5, 6] } else { &[1, 2, 3] };
        let observers: &[u8] = if ctx.thorough { &[0, 1, 2, 3] } else { &[0, 2] };
        for &packets in shapes {
            for attach in [false, true] {
                for survivor in [false, true] {
                    for &observer in observers {
                        for before in if ctx.thorough { vec![0u8, 2] } else { vec![1u8] } {
                            // calls of one send: socketpair, sendmsg, sends, closes (+ attachments' closes)
                            let kmax = packets + 8;
                            for k in 0..=kmax {
                                v.push(Case { packets, attach, before, survivor, observer, concurrent: false, k, poll_first: false });
                                if ctx.thorough && (observer == 0 || observer == 2) {
                                    v.push(Case { packets, attach, before, survivor, observer, concurrent: true, k, poll_first: false });
                                }
                            }
                        }
                    }
                }
            }
        }
        // a look at the channel between the crash and the survivor's next message
        for &packets in if ctx.thorough { &[2u8, 3, 4, 6][..] } else { &[2u8, 3][..] } {
            for k in 0..=packets + 2 {
                for &observer in &[1u8, 2, 3] {
                    for survivor in [true, false] {
                        v.push(Case { packets, attach: (k + observer) % 2 == 0, before: k % 3, survivor, observer, concurrent: false, k, poll_first: true });
                    }
                }
            }
        }
        if !ctx.thorough {
            // the other observers and the concurrent variants at the crash points inside the transfer
            for &packets in &[2u8, 3] {
                for k in 1..=packets + 1 {
                    for &observer in &[1u8, 3] {
                        v.push(Case { packets, attach: k % 2 == 0, before: 1, survivor: true, observer, concurrent: false, k, poll_first: false });
                    }
                    v.push(Case { packets, attach: false, before: 0, survivor: true, observer: 0, concurrent: true, k, poll_first: false });
                    v.push(Case { packets, attach: true, before: 2, survivor: true, observer: 2, concurrent: true, k, poll_first: false });
                }
            }
        }
        v
    }

    fn exec(_ctx: &Ctx, case: &Case) -> Result<Outcome, Failure> {
        run(case)
    }
}


/// What an observer holds between its first look and its main loop.
enum Observer {
    Plain(IpcReceiver<Node>),
    Set { set: IpcReceiverSet, id: u64, idle_id: u64, idle_tx: IpcSender<Node> },
    Routed { crx: crossbeam_channel::Receiver<Node>, idle_crx: crossbeam_channel::Receiver<Node>, idle_tx: IpcSender<Node> },
}

fn prepare(observer: u8, rx: IpcReceiver<Node>) -> Observer {
    match observer {
        0 | 1 => Observer::Plain(rx),
        2 => {
            let mut set = IpcReceiverSet::new().unwrap();
            let (idle_tx, idle_rx) = ipc::channel::<Node>().unwrap();
            let idle_id = set.add(idle_rx).unwrap();
            let id = set.add(rx).unwrap();
            Observer::Set { set, id, idle_id, idle_tx }
        },
        _ => {
            let (idle_tx, idle_rx) = ipc::channel::<Node>().unwrap();
            let crx = ROUTER.route_ipc_receiver_to_new_crossbeam_receiver(rx);
            let idle_crx = ROUTER.route_ipc_receiver_to_new_crossbeam_receiver(idle_rx);
            Observer::Routed { crx, idle_crx, idle_tx }
        },
    }
}

/// One look at the channel while nothing complete is queued behind what the dead sender left:
/// a non-blocking (or briefly timed) receive is repeated until it reports Empty; a set and the
/// router get a message on *another* member and must deliver it.  Runs under the watchdog.
fn first_look(o: &mut Observer, timed: bool, evs: &mut Vec<Ev>) {
    match o {
        Observer::Plain(rx) => loop {
            let r = if timed { rx.try_recv_timeout(Duration::from_millis(3)) } else { rx.try_recv() };
            match r {
                Ok(v) => evs.push(decode(v)),
                Err(TryRecvError::Empty) => break,
                Err(TryRecvError::IpcError(IpcError::Disconnected)) => {
                    evs.push(Ev::Closed);
                    break;
                },
                Err(TryRecvError::IpcError(e)) => {
                    evs.push(Ev::Err(format!("{:?}", e)));
                    if evs.len() > 64 {
                        break;
                    }
                },
            }
        },
        Observer::Set { set, id, idle_id, idle_tx } => {
            let _ = idle_tx.send(Node::U32(0x1d1e));
            let mut idle_seen = false;
            while !idle_seen {
                match set.select() {
                    Ok(results) => {
                        for r in results {
                            match r {
                                IpcSelectionResult::MessageReceived(i, m) if i == *id => match m.to::<Node>() {
                                    Ok(v) => evs.push(decode(v)),
                                    Err(e) => evs.push(Ev::Err(e.to_string())),
                                },
                                IpcSelectionResult::ChannelClosed(i) if i == *id => evs.push(Ev::Closed),
                                IpcSelectionResult::MessageReceived(i, _) if i == *idle_id => idle_seen = true,
                                _ => evs.push(Ev::Err("unexpected event for the idle member".into())),
                            }
                        }
                    },
                    Err(e) => {
                        evs.push(Ev::Err(format!("select: {}", e)));
                        break;
                    },
                }
            }
        },
        Observer::Routed { idle_crx, idle_tx, .. } => {
            // the router serves its other routes while this one holds an abandoned message
            let _ = idle_tx.send(Node::U32(0x1d1e));
            let _ = idle_crx.recv();
        },
    }
}

fn observe(o: Observer, observer: u8, expect_after: u32) -> Vec<Ev> {
    let mut evs = vec![];
    let mut closed_seen = 0;
    let mut survivors_seen = 0;
    match o {
        Observer::Plain(rx) => loop {
            let r = if observer == 0 {
                rx.recv()
            } else {
                match rx.try_recv() {
                    Ok(v) => Ok(v),
                    Err(TryRecvError::Empty) => {
                        std::thread::yield_now();
                        continue;
                    },
                    Err(TryRecvError::IpcError(e)) => Err(e),
                }
            };
            match r {
                Ok(v) => {
                    let e = decode(v);
                    if matches!(e, Ev::Msg(1, _)) {
                        survivors_seen += 1;
                    }
                    evs.push(e);
                },
                Err(IpcError::Disconnected) => {
                    evs.push(Ev::Closed);
                    closed_seen += 1;
                    // a true closure is final; after a false one the survivor's messages follow:
                    // keep reading a little to tell the two apart
                    if survivors_seen >= expect_after || closed_seen > 3 {
                        break;
                    }
                },
                Err(e) => {
                    evs.push(Ev::Err(format!("{:?}", e)));
                    if evs.len() > 64 {
                        break;
                    }
                },
            }
        },
        Observer::Set { mut set, id, idle_tx, .. } => {
            let _idle_tx = idle_tx;
            'sel: loop {
                match set.select() {
                    Ok(results) => {
                        for r in results {
                            match r {
                                IpcSelectionResult::MessageReceived(i, m) if i == id => match m.to::<Node>() {
                                    Ok(v) => evs.push(decode(v)),
                                    Err(e) => evs.push(Ev::Err(e.to_string())),
                                },
                                IpcSelectionResult::ChannelClosed(i) if i == id => {
                                    evs.push(Ev::Closed);
                                    break 'sel;
                                },
                                _ => evs.push(Ev::Err("event for the idle member".into())),
                            }
                        }
                    },
                    Err(e) => {
                        evs.push(Ev::Err(format!("select: {}", e)));
                        break;
                    },
                }
            }
        },
        Observer::Routed { crx, idle_tx, .. } => {
            let _idle_tx = idle_tx;
            loop {
                match crx.recv() {
                    Ok(v) => evs.push(decode(v)),
                    Err(_) => {
                        // forwarding closure dropped = the router saw the channel close
                        evs.push(Ev::Closed);
                        break;
                    },
                }
            }
        },
    }
    evs
}

const S_AFTER: u32 = 2;

fn run(case: &Case) -> Result<Outcome, Failure> {
    let (tx, rx) = ipc::channel::<Node>().map_err(|e| Failure::inconclusive(e.to_string()))?;
    let (ptx, prx) = ipc::channel::<Node>().map_err(|e| Failure::inconclusive(e.to_string()))?;
    let observer = case.observer % 4;
    let concurrent = case.concurrent && (observer == 0 || observer == 2);
    let wd = Duration::from_secs(sandbox::watchdog_secs());

    // --- observers ---------------------------------------------------------------------------------
    // every observer returns the sequence of events it saw, ending with Closed (or a hang)
    let expect_after = if case.survivor { S_AFTER } else { 0 };
    let obs = move |o: Observer| -> Vec<Ev> { observe(o, observer, expect_after) };

    let mut obs_thread = None;
    let mut rx_opt = Some(rx);
    if concurrent {
        let rx = rx_opt.take().unwrap();
        obs_thread = Some(std::thread::spawn(move || obs(prepare(observer, rx))));
        // let it reach its wait (not required for soundness)
        std::thread::sleep(Duration::from_millis(2));
    }

    // --- the dying sender ----------------------------------------------------------------------------
    let (packets, attach, before, k) = (case.packets.clamp(1, 12), case.attach, case.before, case.k);
    let child_tx = tx.clone();
    let child_ptx = ptx.clone();
    let child = sandbox::fork_child(move |_w| {
        for s in 0..before {
            if child_tx.send(message(0, s as u32, 1 + (s % 2), false, None)).is_err() {
                return 3;
            }
        }
        let m = message(0, before as u32, packets, attach, Some(&child_ptx));
        ip::arm(ip::gettid(), 0, k as i64);
        let r = child_tx.send(m);
        ip::disarm();
        if r.is_err() {
            return 4;
        }
        0
    });
    let (end, _) = child.wait(wd);
    let died = match end {
        ChildEnd::Signaled(s) if s == libc::SIGKILL => true,
        ChildEnd::Exited(0) => false,
        ChildEnd::TimedOut => return Err(Failure::inconclusive("the sender child neither died nor finished")),
        other => return Err(Failure::inconclusive(format!("sender child ended unexpectedly: {:?}", other))),
    };
    drop(ptx);

    // --- a first look, before any survivor sends ------------------------------------------------------
    let poll_first = case.poll_first && !concurrent && observer != 0;
    let mut early: Vec<Ev> = vec![];
    let mut prepared = None;
    if poll_first {
        let mut o = prepare(observer, rx_opt.take().unwrap());
        let timed = k % 2 == 1;
        match sandbox::watched(move || {
            let mut evs = vec![];
            first_look(&mut o, timed, &mut evs);
            (o, evs)
        }) {
            Ok((o, evs)) => {
                prepared = Some(o);
                early = evs;
            },
            Err(h) => {
                return Err(sandbox::hang_failure(
                    "crash:observer-blocks-on-abandoned-message",
                    &format!(
                        "sender process {} at call {}; nothing complete is queued behind what it left, and {}",
                        if died { "died" } else { "finished" },
                        k,
                        match observer {
                            1 if timed => "try_recv_timeout(3 ms) does not come back",
                            1 => "try_recv does not come back",
                            2 => "select does not deliver the message of another member of the set",
                            _ => "the router does not deliver the message of another route",
                        }
                    ),
                    h,
                ))
            },
        }
    }

    // --- the survivor ----------------------------------------------------------------------------------
    let (stx, srx) = ipc::channel::<Node>().map_err(|e| Failure::inconclusive(e.to_string()))?;
    if case.survivor {
        for s in 0..S_AFTER {
            // the survivor's messages carry their own attachment (a reply sender)
            let r = tx.send(message(1, s, 1 + (s % 2) as u8, true, Some(&stx)));
            ensure!(r.is_ok(), "crash:survivor-send-failed", "a surviving sender could not send after another sender process died (k = {}): {:?}", k, r.map_err(|e| e.to_string()));
        }
    }
    drop(tx);

    // --- observe -----------------------------------------------------------------------------------------
    let evs = if let Some(t) = obs_thread {
        match sandbox::watched(move || t.join()) {
            Ok(Ok(e)) => e,
            Ok(Err(_)) => fail!("crash:observer-panicked", "the observer panicked: {:?}", crate::take_panics()),
            Err(h) => return Err(sandbox::hang_failure("crash:observer-hangs", &format!("every sender is gone (sender process {} at call {}), the waiting observer {} never finishes", if died { "died" } else { "finished" }, k, observer), h)),
        }
    } else if observer == 2 && early.iter().any(|e| matches!(e, Ev::Closed)) {
        // the set reported the closure during the first look: the member is gone from the set
        early
    } else {
        let o = match prepared {
            Some(o) => o,
            None => prepare(observer, rx_opt.take().unwrap()),
        };
        match sandbox::watched(move || obs(o)) {
            Ok(mut e) => {
                early.append(&mut e);
                early
            },
            Err(h) => return Err(sandbox::hang_failure("crash:observer-hangs", &format!("every sender is gone (sender process {} at call {}), observer {} never finishes", if died { "died" } else { "finished" }, k, observer), h)),
        }
    };

    // --- oracle -------------------------------------------------------------------------------------------
    let desc = || format!("{:?}", evs);
    let mut i = 0;
    // M earlier messages first and intact
    for s in 0..before as u32 {
        match evs.get(i) {
            Some(Ev::Msg(0, q)) if *q == s => i += 1,
            other => fail!("crash:earlier-message-lost", "message {} whose send had returned before the crash is missing/out of order: saw {:?} (all: {})", s, other, desc()),
        }
    }
    // the fatal message: intact, or not a message at all (at most one non-Disconnected error)
    let mut fatal_delivered = false;
    let mut abort_error = false;
    match evs.get(i) {
        Some(Ev::Msg(0, q)) if *q == before as u32 => {
            fatal_delivered = true;
            i += 1;
        },
        Some(Ev::Corrupt(e)) => fail!("crash:corrupt-message-delivered", "the interrupted message was presented as complete but is not whole: {} (all: {})", e, desc()),
        Some(Ev::Err(_)) => {
            abort_error = true;
            i += 1;
        },
        _ => {},
    }
    ensure!(died || fatal_delivered, "crash:complete-message-lost", "the sender finished its send normally but the message was not delivered (all: {})", desc());
    // survivor's messages, then closure - no closure before them
    for s in 0..expect_after {
        match evs.get(i) {
            Some(Ev::Msg(1, q)) if *q == s => i += 1,
            Some(Ev::Closed) => fail!("crash:false-disconnected", "the channel was reported closed (observer {}) although a surviving sender handle existed and its message {} was still to come (crash before call {}; all: {})", observer, s, k, desc()),
            other => fail!("crash:survivor-message-lost", "message {} of the surviving sender missing: saw {:?} (all: {})", s, other, desc()),
        }
    }
    match evs.get(i) {
        Some(Ev::Closed) => {},
        other => fail!("crash:no-closure", "after all messages the closure was not reported: saw {:?} (all: {})", other, desc()),
    }
    // attachments arrive with the message they were attached to: the survivor's reply senders
    // answer on `srx`, the dying sender's (if its message was delivered) on `prx`
    drop(stx);
    if case.survivor {
        for s in 0..S_AFTER {
            match srx.try_recv() {
                Ok(Node::U64(x)) if x == 1000 + s as u64 => {},
                other => fail!("crash:attachment-of-other-message", "the reply through the sender attached to the survivor's message {} did not arrive on the survivor's reply channel ({:?}): the message carried someone else's attachment (all: {})", s, other.map(|n| node::rendered(&n)), desc()),
            }
        }
    }
    match srx.try_recv() {
        Err(TryRecvError::IpcError(IpcError::Disconnected)) => {},
        other => fail!("crash:attachment-unexpected", "survivor reply channel: {:?}", other.map(|n| node::rendered(&n))),
    }
    if attach {
        if fatal_delivered {
            match prx.try_recv() {
                Ok(Node::U64(x)) if x == before as u64 => {},
                other => fail!("crash:attachment-of-other-message", "the delivered message of the dying sender did not carry its own attachment ({:?})", other.map(|n| node::rendered(&n))),
            }
        }
        match prx.try_recv() {
            Err(TryRecvError::IpcError(IpcError::Disconnected)) => {},
            Err(TryRecvError::Empty) => fail!("crash:attachment-retained", "the sender attached to the interrupted message is still open somewhere after everything was dropped"),
            other => fail!("crash:attachment-unexpected", "probe channel: {:?}", other.map(|n| node::rendered(&n))),
        }
    }
    let inside = died && packets >= 2 && k >= 2 && k <= packets;
    let class = format!(
        "{}pkt{}/{}/obs{}{}/{}",
        packets,
        if attach { "+att" } else { "" },
        if case.survivor { "survivor" } else { "no-survivor" },
        observer,
        if concurrent { "c" } else if poll_first { "+first-look" } else { "" },
        if !died { "send-completed" } else if fatal_delivered { "died-after-last-packet" } else if inside { "died-mid-message" } else if abort_error { "died-partial" } else { "died-before-first-packet" }
    );
    Ok(Outcome::new(inside, class).with("crash_points", died as u64))
}
