//! C13 - transient ENOBUFS during send is absorbed or reported, never damaging.
//!
//! Fault enumeration: every pattern of ENOBUFS over the first 10 transmission attempts of one send
//! (2^10 masks) x message shapes {one packet <= 2000 B, one packet > 2000 B, 2, 3 and 6 packets} x
//! {no attachments, sender+receiver+region attached}, per reported send-buffer size (job
//! parameter).  The fault is injected at the libc boundary (`sendmsg`/`send` of the sending thread
//! return ENOBUFS without transmitting, exactly like the real error).
//! Oracle: Ok => the receiver gets exactly that payload with all attachments (probed), then an
//! intact follow-on message; Err => the receiver never gets a complete-looking wrong message (at
//! most one error for the aborted partial message, then the follow-on); no receive ever saw
//! MSG_TRUNC (every retry is one the receiver can accept); descriptor count unchanged afterwards.

use crate::engine::{Ctx, Failure, Outcome, Prop};
use crate::fdsnap;
use crate::interpose as ip;
use crate::node::{self, Handle, Node};
use crate::payload;
use crate::props::c01;
use crate::sandbox;
use crate::{ensure, fail};
use ipc_channel::ipc::{self, IpcSharedMemory};
use proptest::prelude::*;
use serde::{Deserialize, Serialize};
use std::sync::atomic::Ordering::SeqCst;

pub struct C13;

#[derive(Clone, Debug, Serialize, Deserialize)]
pub struct Case {
    pub mask: u64,
    /// 0: one packet <= 2000 B, 1: one packet > 2000 B, 2: 2 packets, 3: 3 packets, 4: 6 packets,
    /// 5..: generated (len given)
    pub shape: u8,
    pub len: u32,
    pub attach: bool,
    /// run at the platform level (`ipc_channel::platform`): raw bytes, and the lists of channels
    /// and regions the receiver obtains are compared exactly (the typed layer silently drops
    /// attachments that the value does not reference)
    #[serde(default)]
    pub platform: bool,
}

fn shape_len(shape: u8, len: u32) -> usize {
    let (f1, f) = c01::capacities();
    match shape {
        0 => 1500,
        1 => (f1 - 100).max(2100),
        2 => f1 + f / 2,
        3 => f1 + f + f / 3,
        4 => f1 + 4 * f + 17,
        _ => len as usize,
    }
}

impl Prop for C13 {
    type Case = Case;
    const ID: &'static str = "C13";

    fn setup(_ctx: &Ctx) {
        c01::measure_capacities();
    }

    fn cases(ctx: &Ctx) -> u32 {
        ctx.param_u64("cases", ctx.pick(0, 20000) as u64) as u32
    }

    fn strategy(_ctx: &Ctx) -> BoxedStrategy<Case> {
        let (f1, f) = c01::capacities();
        let max = (f1 + 8 * f).min(2_000_000) as u32;
        // random masks over 64 attempts (sparse and dense), random lengths
        (prop_oneof![any::<u64>(), (any::<u64>(), any::<u64>()).prop_map(|(a, b)| a & b), (any::<u64>(), any::<u64>(), any::<u64>()).prop_map(|(a, b, c)| a & b & c)], 1u32..max, any::<bool>(), any::<bool>())
            .prop_map(|(mask, len, attach, platform)| Case { mask, shape: 5, len, attach, platform })
            .boxed()
    }

    fn enumerated(_ctx: &Ctx) -> Vec<Case> {
        let mut v = vec![];
        for shape in 0..5u8 {
            for attach in [false, true] {
                for mask in 0..1024u64 {
                    v.push(Case { mask, shape, len: 0, attach, platform: false });
                    v.push(Case { mask, shape, len: 0, attach, platform: true });
                }
            }
        }
        v
    }

    fn exec(_ctx: &Ctx, case: &Case) -> Result<Outcome, Failure> {
        let fds0 = fdsnap::count_fds();
        let out = if case.platform && !cfg!(feature = "inproc") { one_platform(case)? } else { one(case)? };
        let fds1 = fdsnap::count_fds();
        ensure!(fds0 == fds1, "enobufs:descriptors-leaked", "descriptor count {} -> {} after a send with ENOBUFS mask {:#x}", fds0, fds1, case.mask);
        Ok(out)
    }
}

/// Another thread of the process allocates and releases descriptor numbers all the while (it
/// keeps a handful of duplicates of stderr open, oldest closed first): a retry that re-uses a
/// descriptor *number* the send path has already released then transmits somebody else's file.
struct FdChurn {
    stop: std::sync::Arc<std::sync::atomic::AtomicBool>,
    thread: Option<std::thread::JoinHandle<()>>,
}
impl FdChurn {
    fn start() -> FdChurn {
        let stop = std::sync::Arc::new(std::sync::atomic::AtomicBool::new(false));
        let s2 = stop.clone();
        let thread = std::thread::spawn(move || {
            let mut held = std::collections::VecDeque::new();
            while !s2.load(SeqCst) {
                let fd = unsafe { libc::dup(2) };
                if fd >= 0 {
                    held.push_back(fd);
                }
                if held.len() > 6 {
                    ip::raw_close(held.pop_front().unwrap());
                }
                std::hint::spin_loop();
            }
            for fd in held {
                ip::raw_close(fd);
            }
        });
        FdChurn { stop, thread: Some(thread) }
    }
}
impl Drop for FdChurn {
    fn drop(&mut self) {
        self.stop.store(true, SeqCst);
        if let Some(t) = self.thread.take() {
            let _ = t.join();
        }
    }
}

/// The same experiment one layer down: `platform::OsIpcSender::send(bytes, channels, regions)`.
#[cfg(not(feature = "inproc"))]
fn one_platform(case: &Case) -> Result<Outcome, Failure> {
    use ipc_channel::platform::{self, OsIpcChannel, OsIpcSharedMemory};
    let len = shape_len(case.shape, case.len).max(payload::HEADER);
    let inc = |e: String| Failure::inconclusive(format!("platform channel: {}", e));
    let (tx, rx) = platform::channel().map_err(|e| inc(e.to_string()))?;
    let (ptx, prx) = platform::channel().map_err(|e| inc(e.to_string()))?;
    let (qtx, qrx) = platform::channel().map_err(|e| inc(e.to_string()))?;
    let data = payload::make(1, 0, 0, len, case.mask.wrapping_mul(31) + len as u64);
    let region_bytes = payload::stream(case.mask ^ 7, 5000);
    let (channels, regions) = if case.attach {
        (vec![OsIpcChannel::Sender(ptx.clone()), OsIpcChannel::Receiver(qrx)], vec![OsIpcSharedMemory::from_bytes(&region_bytes)])
    } else {
        drop(qrx);
        (vec![], vec![])
    };
    let (want_channels, want_regions) = (channels.len(), regions.len());
    let trunc0 = ip::N_TRUNC.load(SeqCst);
    let receiver = std::thread::spawn(move || {
        let mut results = vec![];
        for _ in 0..4 {
            let r = rx.recv();
            let fin = matches!(&r, Ok((d, _, _)) if &d[..] == b"fin");
            results.push(r);
            if fin {
                break;
            }
        }
        results
    });
    let churn = if case.mask & 3 != 0 { Some(FdChurn::start()) } else { None };
    ip::arm(ip::gettid(), case.mask, -1);
    let r = tx.send(&data, channels, regions);
    let attempts = ip::TX_ATTEMPTS.load(SeqCst);
    let injected = ip::ENOBUFS_INJECTED.load(SeqCst);
    ip::disarm();
    drop(churn);
    let r2 = tx.send(b"fin", vec![], vec![]);
    ensure!(r2.is_ok(), "enobufs:follow-on-send-failed", "platform level: the message after the faulty send could not be sent: {:?}", r2.map_err(|e| e.to_string()));
    let what = format!("platform level, mask {:#x}, {} bytes, {} injected of {} attempts, send result {:?}", case.mask, len, injected, attempts, r.as_ref().map_err(|e| e.to_string()));
    let mut results = match sandbox::watched(move || receiver.join()) {
        Ok(Ok(v)) => v,
        Ok(Err(_)) => fail!("enobufs:receiver-panicked", "the receiver panicked ({}): {:?}", what, crate::take_panics()),
        Err(h) => return Err(sandbox::hang_failure("enobufs:receiver-hangs", &format!("receiver ({})", what), h)),
    };
    let trunc1 = ip::N_TRUNC.load(SeqCst);
    ensure!(trunc0 == trunc1, "enobufs:packet-truncated-at-receiver", "a packet transmitted during the retries was larger than the buffer the receiver offered (MSG_TRUNC seen): {}", what);
    ensure!(matches!(results.last(), Some(Ok((d, c, g))) if &d[..] == b"fin" && c.is_empty() && g.is_empty()), "enobufs:follow-on-lost", "the follow-on message did not arrive intact ({})", what);
    results.pop();
    let mut partial = false;
    if r.is_ok() {
        ensure!(results.len() == 1, "enobufs:ok-but-not-delivered-once", "send returned Ok but the receiver saw {} result(s) before the follow-on ({})", results.len(), what);
        let (d, mut chans, regs) = match results.pop().unwrap() {
            Ok(x) => x,
            Err(e) => fail!("enobufs:ok-but-receiver-error", "send returned Ok but the receiver got {:?} ({})", e, what),
        };
        ensure!(d == data, "enobufs:ok-but-altered", "send returned Ok but {} bytes arrived instead of the {} sent, first difference at {:?} ({})", d.len(), data.len(), payload::first_diff(&d, &data), what);
        ensure!(chans.len() == want_channels && regs.len() == want_regions, "enobufs:attachment-lists-differ", "send returned Ok; {} channels and {} regions were attached, {} channels and {} regions arrived ({})", want_channels, want_regions, chans.len(), regs.len(), what);
        if case.attach {
            ensure!(&regs[0][..] == &region_bytes[..], "enobufs:ok-but-altered", "the attached region arrived with other contents ({})", what);
            let (mut c1, mut c0) = (chans.pop().unwrap(), chans.pop().unwrap());
            let q = c1.to_receiver();
            let t = c0.to_sender();
            t.send(b"probe-p", vec![], vec![]).map_err(|e| Failure::new("enobufs:probe-failed", e.to_string()))?;
            ensure!(matches!(prx.try_recv(), Ok((d, _, _)) if &d[..] == b"probe-p"), "enobufs:foreign-sender", "the attached sender arrived as a different channel ({})", what);
            qtx.send(b"probe-q", vec![], vec![]).map_err(|e| Failure::new("enobufs:probe-failed", e.to_string()))?;
            ensure!(matches!(q.try_recv(), Ok((d, _, _)) if &d[..] == b"probe-q"), "enobufs:foreign-receiver", "the attached receiver arrived as a different channel ({})", what);
        }
    } else {
        ensure!(results.len() <= 1, "enobufs:err-but-delivered", "send failed but the receiver saw {} results before the follow-on ({})", results.len(), what);
        if let Some(x) = results.pop() {
            match x {
                Ok((d, _, _)) => fail!("enobufs:err-but-message-delivered", "send returned an error but the receiver obtained a complete-looking message of {} bytes ({})", d.len(), what),
                Err(_) => partial = true,
            }
        }
    }
    let nontrivial = (case.mask != 0 && injected > 0 && r.is_ok()) || (r.is_err() && attempts > injected);
    let class = format!(
        "platform/{}{}{}",
        match (r.is_ok(), injected) {
            (true, 0) => "ok/no-fault-hit",
            (true, _) => "ok/recovered",
            (false, _) if attempts > injected => "err/after-partial-transmission",
            (false, _) => "err/nothing-transmitted",
        },
        if case.attach { "+attachments" } else { "" },
        if partial { "+receiver-saw-abort" } else { "" }
    );
    Ok(Outcome::new(nontrivial, class).with("enobufs_injected", injected as u64).with("transmission_attempts", attempts as u64))
}

#[cfg(feature = "inproc")]
fn one_platform(case: &Case) -> Result<Outcome, Failure> {
    one(case)
}

fn one(case: &Case) -> Result<Outcome, Failure> {
    let len = shape_len(case.shape, case.len);
    let (tx, rx) = ipc::channel::<Node>().map_err(|e| Failure::inconclusive(format!("channel: {}", e)))?;
    let (ptx, prx) = ipc::channel::<Node>().map_err(|e| Failure::inconclusive(format!("channel: {}", e)))?;
    let (qtx, qrx) = ipc::channel::<Node>().map_err(|e| Failure::inconclusive(format!("channel: {}", e)))?;
    // value whose serialised size is exactly `len`
    let mut items = vec![Node::Tagged { chan: 1, sender: 0, seq: 0, body: vec![] }];
    if case.attach {
        items.push(Node::Tx(ptx.clone()));
        items.push(Node::Shm(IpcSharedMemory::from_bytes(&payload::stream(case.mask ^ 7, 5000))));
        items.push(Node::Rx(qrx));
    } else {
        drop(qrx);
    }
    let mut value = Node::List(items);
    let base = crate::world::bincode_size(&value);
    let pad = len.saturating_sub(base).max(payload::HEADER);
    if let Node::List(v) = &mut value {
        if let Node::Tagged { body, .. } = &mut v[0] {
            *body = payload::make(1, 0, 0, pad, case.mask.wrapping_mul(31) + len as u64);
        }
    }
    let total = crate::world::bincode_size(&value);
    let want = node::rendered(&value);

    let trunc0 = ip::N_TRUNC.load(SeqCst);
    let receiver = std::thread::spawn(move || {
        let mut results = vec![];
        for _ in 0..4 {
            let r = rx.recv();
            let fin = matches!(&r, Ok(Node::U32(0xf0110)));
            results.push(r);
            if fin {
                break;
            }
        }
        results
    });
    ip::arm(ip::gettid(), case.mask, -1);
    let r = tx.send(value);
    let attempts = ip::TX_ATTEMPTS.load(SeqCst);
    let injected = ip::ENOBUFS_INJECTED.load(SeqCst);
    ip::disarm();
    let r2 = tx.send(Node::U32(0xf0110));
    ensure!(r2.is_ok(), "enobufs:follow-on-send-failed", "the message after the faulty send could not be sent: {:?}", r2.map_err(|e| e.to_string()));
    let results = match sandbox::watched(move || receiver.join()) {
        Ok(Ok(v)) => v,
        Ok(Err(_)) => fail!("enobufs:receiver-panicked", "the receiver panicked (mask {:#x}, {} bytes, send result {:?}): {:?}", case.mask, total, r.as_ref().map_err(|e| e.to_string()), crate::take_panics()),
        Err(h) => return Err(sandbox::hang_failure("enobufs:receiver-hangs", &format!("receiver of a send with ENOBUFS mask {:#x} ({} bytes, send result {:?})", case.mask, total, r.as_ref().map_err(|e| e.to_string())), h)),
    };
    let trunc1 = ip::N_TRUNC.load(SeqCst);
    ensure!(trunc0 == trunc1, "enobufs:packet-truncated-at-receiver", "a packet transmitted during the retries was larger than the buffer the receiver offered (MSG_TRUNC seen): mask {:#x}, {} bytes", case.mask, total);
    ensure!(matches!(results.last(), Some(Ok(Node::U32(0xf0110)))), "enobufs:follow-on-lost", "the follow-on message did not arrive intact: {:?}", results.iter().map(|r| r.as_ref().map(node::rendered).map_err(|e| format!("{:?}", e))).collect::<Vec<_>>());
    let before: Vec<_> = results.into_iter().rev().skip(1).rev().collect();
    let mut partial = false;
    if r.is_ok() {
        ensure!(before.len() == 1, "enobufs:ok-but-not-delivered-once", "send returned Ok (mask {:#x}, {} injected of {} attempts) but the receiver saw {} result(s) before the follow-on", case.mask, injected, attempts, before.len());
        let got = match before.into_iter().next().unwrap() {
            Ok(v) => v,
            Err(e) => fail!("enobufs:ok-but-receiver-error", "send returned Ok (mask {:#x}) but the receiver got {:?}", case.mask, e),
        };
        let gr = node::rendered(&got);
        ensure!(gr == want, "enobufs:ok-but-altered", "send returned Ok (mask {:#x}, {} bytes) but the message arrived altered: sent {} received {}", case.mask, total, &want[..want.len().min(200)], &gr[..gr.len().min(200)]);
        if case.attach {
            let mut hs = vec![];
            node::take_handles(got, &mut hs);
            ensure!(hs.len() == 3, "enobufs:attachments-lost", "3 attachments sent, {} arrived", hs.len());
            let mut it = hs.into_iter();
            match (it.next(), it.next(), it.next()) {
                (Some(Handle::Tx(t)), Some(Handle::Shm(_)), Some(Handle::Rx(q))) => {
                    t.send(Node::U64(11)).map_err(|e| Failure::new("enobufs:probe-failed", e.to_string()))?;
                    ensure!(matches!(prx.try_recv(), Ok(Node::U64(11))), "enobufs:foreign-sender", "the attached sender arrived as a different channel");
                    qtx.send(Node::U64(12)).map_err(|e| Failure::new("enobufs:probe-failed", e.to_string()))?;
                    ensure!(matches!(q.try_recv(), Ok(Node::U64(12))), "enobufs:foreign-receiver", "the attached receiver arrived as a different channel");
                },
                _ => fail!("enobufs:attachments-misplaced", "attachments arrived in different positions/kinds"),
            }
        }
    } else {
        // failed send: nothing, or one error for the aborted partial message
        ensure!(before.len() <= 1, "enobufs:err-but-delivered", "send failed (mask {:#x}) but the receiver saw {} results before the follow-on", case.mask, before.len());
        if let Some(x) = before.into_iter().next() {
            match x {
                Ok(v) => fail!("enobufs:err-but-message-delivered", "send returned an error (mask {:#x}, {} bytes) but the receiver obtained a complete-looking message {}", case.mask, total, &node::rendered(&v)[..60.min(node::rendered(&v).len())]),
                Err(_) => partial = true,
            }
        }
    }
    let nontrivial = (case.mask != 0 && injected > 0 && r.is_ok()) || (r.is_err() && attempts > injected);
    let class = format!(
        "{}{}{}",
        match (r.is_ok(), injected) {
            (true, 0) => "ok/no-fault-hit".to_string(),
            (true, _) => "ok/recovered".to_string(),
            (false, _) => {
                if attempts > injected {
                    "err/after-partial-transmission".to_string()
                } else {
                    "err/nothing-transmitted".to_string()
                }
            },
        },
        if case.attach { "+attachments" } else { "" },
        if partial { "+receiver-saw-abort" } else { "" }
    );
    Ok(Outcome::new(nontrivial, class).with("enobufs_injected", injected as u64).with("transmission_attempts", attempts as u64))
}
