//! C14 - a failed or nested send leaves no trace in later or enclosing messages.
//!
//! A harness-side `Serialize` implementation is driven by a generated *script*: it visits
//! embedded endpoints/regions, optionally performs a nested `send` of another scripted value on
//! another channel (depth <= 3, attachments before / inside / after the nested call), optionally
//! fails at a generated point, optionally ignores a nested failure and goes on.  The scripted value
//! encodes byte-for-byte like `Node::List([...])`, so ordinary `IpcReceiver<Node>`s decode it.
//! A symmetric `Deserialize` hook performs a `recv` on another channel in the middle of decoding.
//! Oracle: reference model of what every successfully sent message must contain (own attachments,
//! right positions, identity by probes); endpoints referenced only by a failed value disconnect as
//! soon as the program's own handles are gone; the descriptor table returns to its baseline.

use crate::engine::{Ctx, Failure, Outcome, Prop};
use crate::fdsnap;
use crate::node::{self, Handle, Node};
use crate::payload;
use crate::{ensure, fail};
use ipc_channel::ipc::{self, IpcError, IpcReceiver, IpcSender, IpcSharedMemory, TryRecvError};
use proptest::prelude::*;
use serde::ser::{SerializeSeq, Serializer};
use serde::{Deserialize, Serialize};
use std::cell::RefCell;

pub struct C14;

const TXP: usize = 4; // payload channels whose sender clones get embedded
const TARGETS: usize = 3; // channels scripted values are sent on

#[derive(Clone, Debug, Serialize, Deserialize)]
pub enum Step {
    Data(u32),
    /// embed a clone of payload sender k
    Tx(u8),
    /// embed (move) the receiver of a fresh channel
    Rx,
    Shm { len: u16, seed: u64 },
    /// send the inner script on target channel `on` from inside this serialisation
    Nested { on: u8, script: Vec<Step>, ignore_failure: bool },
    /// report a serialisation error here
    Fail,
}

#[derive(Clone, Debug, Serialize, Deserialize)]
pub struct Case {
    pub on: u8,
    pub script: Vec<Step>,
    /// the receiver of the outer target channel is dropped before the send (OS-level rejection)
    pub target_closed: bool,
    /// plain follow-up sends on the same thread (each with one fresh sender + one region attached)
    pub followups: u8,
    /// receive the outer message through a type whose Deserialize receives on another channel mid-way
    pub recv_inside_deserialize: bool,
}

// ---- variant indices of Node, verified at start-up ---------------------------------------------

#[derive(Clone, Copy)]
struct Tags {
    bool_: u32,
    u32_: u32,
    list: u32,
    tx: u32,
    rx: u32,
    shm: u32,
}

fn tag_of(n: &Node) -> u32 {
    let b = bincode::serialize(n).unwrap();
    u32::from_le_bytes(b[0..4].try_into().unwrap())
}

fn tags() -> Tags {
    // endpoint variants cannot be serialised outside a send; their indices follow from the
    // declaration order, checked against the data variants around them
    let t = Tags { bool_: tag_of(&Node::Bool(true)), u32_: tag_of(&Node::U32(0)), list: tag_of(&Node::List(vec![])), tx: 20, rx: 21, shm: 26 };
    assert_eq!(tag_of(&Node::Tagged { chan: 0, sender: 0, seq: 0, body: vec![] }), 19, "Node layout changed: update c14 tags");
    t
}

// ---- the scripted value -------------------------------------------------------------------------

struct Env {
    payload_tx: Vec<IpcSender<Node>>,
    targets: Vec<IpcSender<Node>>,
    /// receivers created for Rx steps: (id, receiver still to embed)
    fresh_rx: RefCell<Vec<Option<IpcReceiver<Node>>>>,
    next_rx: RefCell<usize>,
    /// results of nested sends in execution order: (script path id, ok)
    nested_results: RefCell<Vec<(usize, bool)>>,
    tags: Tags,
}

thread_local! {
    static ENV: RefCell<Option<std::rc::Rc<Env>>> = const { RefCell::new(None) };
    static DESER_HOOK: RefCell<Option<Box<dyn FnMut()>>> = RefCell::new(None);
}

struct Scripted {
    steps: Vec<Step>,
    /// index of this script in the flattened script list (for nested result bookkeeping)
    id: usize,
}

impl<'de> Deserialize<'de> for Scripted {
    fn deserialize<D: serde::Deserializer<'de>>(_d: D) -> Result<Self, D::Error> {
        Err(serde::de::Error::custom("Scripted is never decoded"))
    }
}

struct Item<'a>(&'a Step, usize, &'a std::rc::Rc<Env>);

impl Serialize for Scripted {
    fn serialize<S: Serializer>(&self, s: S) -> Result<S::Ok, S::Error> {
        let env = ENV.with(|e| e.borrow().clone()).expect("ENV set");
        // encodes like Node::List(Vec<Node>)
        struct Body<'a>(&'a Scripted, &'a std::rc::Rc<Env>);
        impl Serialize for Body<'_> {
            fn serialize<S: Serializer>(&self, s: S) -> Result<S::Ok, S::Error> {
                let mut seq = s.serialize_seq(Some(self.0.steps.len()))?;
                let mut sub = 0usize;
                for st in &self.0.steps {
                    let child_id = if matches!(st, Step::Nested { .. }) {
                        sub += 1;
                        self.0.id * 8 + sub
                    } else {
                        0
                    };
                    seq.serialize_element(&Item(st, child_id, self.1))?;
                }
                seq.end()
            }
        }
        s.serialize_newtype_variant("Node", env.tags.list, "List", &Body(self, &env))
    }
}

impl Serialize for Item<'_> {
    fn serialize<S: Serializer>(&self, s: S) -> Result<S::Ok, S::Error> {
        let env = self.2;
        let t = env.tags;
        match self.0 {
            Step::Data(x) => s.serialize_newtype_variant("Node", t.u32_, "U32", x),
            Step::Tx(k) => s.serialize_newtype_variant("Node", t.tx, "Tx", &env.payload_tx[*k as usize % TXP]),
            Step::Rx => {
                let i = {
                    let mut n = env.next_rx.borrow_mut();
                    let i = *n;
                    *n += 1;
                    i
                };
                let rx = env.fresh_rx.borrow_mut()[i].take().expect("fresh receiver available");
                // serialising moves the receiver out of `rx`; the emptied shell is dropped right after
                s.serialize_newtype_variant("Node", t.rx, "Rx", &rx)
            },
            Step::Shm { len, seed } => {
                let r = IpcSharedMemory::from_bytes(&payload::stream(*seed, *len as usize));
                s.serialize_newtype_variant("Node", t.shm, "Shm", &r)
            },
            Step::Nested { on, script, ignore_failure } => {
                let inner = Scripted { steps: script.clone(), id: self.1 };
                let target: IpcSender<Scripted> = env.targets[*on as usize % TARGETS].clone().to_opaque().to();
                let r = target.send(inner);
                env.nested_results.borrow_mut().push((self.1, r.is_ok()));
                if r.is_err() && !*ignore_failure {
                    return Err(serde::ser::Error::custom("nested send failed"));
                }
                s.serialize_newtype_variant("Node", t.bool_, "Bool", &r.is_ok())
            },
            Step::Fail => Err(serde::ser::Error::custom("scripted serialisation failure")),
        }
    }
}

/// `(Node, HookPoint, Node)`: decoding runs the thread-local hook between the two halves.
#[derive(Serialize, Deserialize)]
struct Sandwich(Node, HookPoint, Node);
struct HookPoint;
impl Serialize for HookPoint {
    fn serialize<S: Serializer>(&self, s: S) -> Result<S::Ok, S::Error> {
        s.serialize_unit()
    }
}
impl<'de> Deserialize<'de> for HookPoint {
    fn deserialize<D: serde::Deserializer<'de>>(d: D) -> Result<Self, D::Error> {
        <()>::deserialize(d)?;
        DESER_HOOK.with(|h| {
            if let Some(f) = h.borrow_mut().as_mut() {
                f()
            }
        });
        Ok(HookPoint)
    }
}

// ---- model ---------------------------------------------------------------------------------------

#[derive(Debug, Clone)]
enum Exp {
    Data(u32),
    Tx(usize),
    Rx(usize),
    Shm(usize, u64),
    Mark(bool),
}

struct Sim {
    /// per target channel: expected messages in order
    delivered: Vec<Vec<Vec<Exp>>>,
    next_rx: usize,
    /// fresh receivers that ended up in a failed send
    lost_rx: Vec<usize>,
    visited_before_failure: usize,
    failures: usize,
    nested: usize,
    nested_with_attachments_both_levels: bool,
}

/// Simulate a scripted send: returns (ok, items of this message).
fn simulate(steps: &[Step], on: usize, target_alive: &[bool], sim: &mut Sim) -> bool {
    let mut items = vec![];
    let mut ok = true;
    let mut own_attach = 0;
    for st in steps {
        match st {
            Step::Data(x) => items.push(Exp::Data(*x)),
            Step::Tx(k) => {
                items.push(Exp::Tx(*k as usize % TXP));
                own_attach += 1;
            },
            Step::Rx => {
                items.push(Exp::Rx(sim.next_rx));
                sim.next_rx += 1;
                own_attach += 1;
            },
            Step::Shm { len, seed } => {
                items.push(Exp::Shm(*len as usize, payload::fnv64(&payload::stream(*seed, *len as usize))));
                own_attach += 1;
            },
            Step::Nested { on: j, script, ignore_failure } => {
                sim.nested += 1;
                let before = sim.next_rx;
                let inner_has = script.iter().any(|s| matches!(s, Step::Tx(_) | Step::Rx | Step::Shm { .. }));
                let r = simulate(script, *j as usize % TARGETS, target_alive, sim);
                let _ = before;
                if inner_has && own_attach > 0 {
                    sim.nested_with_attachments_both_levels = true;
                }
                if !r && !*ignore_failure {
                    ok = false;
                    break;
                }
                items.push(Exp::Mark(r));
            },
            Step::Fail => {
                ok = false;
                break;
            },
        }
    }
    if ok && !target_alive[on] {
        ok = false;
    }
    if ok {
        sim.delivered[on].push(items);
    } else {
        sim.failures += 1;
        sim.visited_before_failure += own_attach;
        for it in items {
            if let Exp::Rx(i) = it {
                sim.lost_rx.push(i);
            }
        }
    }
    ok
}

fn count_rx(steps: &[Step]) -> usize {
    steps.iter().map(|s| match s {
        Step::Rx => 1,
        Step::Nested { script, .. } => count_rx(script),
        _ => 0,
    }).sum()
}

fn depth(steps: &[Step]) -> usize {
    steps.iter().map(|s| match s {
        Step::Nested { script, .. } => 1 + depth(script),
        _ => 0,
    }).max().unwrap_or(0)
}

fn step_strategy() -> BoxedStrategy<Step> {
    let leaf = prop_oneof![
        3 => any::<u32>().prop_map(Step::Data),
        4 => (0u8..TXP as u8).prop_map(Step::Tx),
        3 => Just(Step::Rx),
        2 => (0u16..3000, any::<u64>()).prop_map(|(len, seed)| Step::Shm { len, seed }),
        1 => Just(Step::Fail),
    ];
    leaf.prop_recursive(3, 24, 6, |inner| {
        (0u8..TARGETS as u8, proptest::collection::vec(inner, 0..6), any::<bool>())
            .prop_map(|(on, script, ignore_failure)| Step::Nested { on, script, ignore_failure })
    })
    .boxed()
}

impl Prop for C14 {
    type Case = Case;
    const ID: &'static str = "C14";

    fn cases(ctx: &Ctx) -> u32 {
        ctx.param_u64("cases", ctx.pick(3000, 60000) as u64) as u32
    }

    fn strategy(_ctx: &Ctx) -> BoxedStrategy<Case> {
        (0u8..TARGETS as u8, proptest::collection::vec(step_strategy(), 0..8), proptest::bool::weighted(0.15), 0u8..3, proptest::bool::weighted(0.3))
            .prop_map(|(on, script, target_closed, followups, recv_inside_deserialize)| Case { on, script, target_closed, followups, recv_inside_deserialize })
            .boxed()
    }

    fn exec(_ctx: &Ctx, case: &Case) -> Result<Outcome, Failure> {
        // nesting depth is bounded by the generator (prop_recursive depth 3)
        let fds_before = fdsnap::fd_map();
        // a fresh thread per case: the library keeps per-thread attachment lists, and a case must not
        // inherit what an earlier (failing) case may have left there
        let c = case.clone();
        let r = match std::thread::spawn(move || run_case(&c)).join() {
            Ok(r) => r,
            Err(_) => fail!("case:panicked", "the case panicked outside the guarded calls"),
        };
        // everything created by the case is dropped when run_case returns
        let fds_after = fdsnap::fd_map();
        let out = r?;
        if fds_after.len() != fds_before.len() {
            let extra: Vec<String> = fds_after.iter().filter(|(k, _)| !fds_before.contains_key(k)).map(|(k, v)| format!("{}->{}", k, v)).collect();
            fail!("failed-send:descriptors-retained", "descriptor table did not return to its baseline after the case: {} -> {} descriptors (new: {})", fds_before.len(), fds_after.len(), extra.join(" "));
        }
        Ok(out)
    }
}

fn run_case(case: &Case) -> Result<Outcome, Failure> {
    let chan = || ipc::channel::<Node>().map_err(|e| Failure::inconclusive(format!("channel: {}", e)));
    let mut payload_rx = vec![];
    let mut payload_tx = vec![];
    for _ in 0..TXP {
        let (t, r) = chan()?;
        payload_tx.push(t);
        payload_rx.push(r);
    }
    let mut targets = vec![];
    let mut target_rx: Vec<Option<IpcReceiver<Node>>> = vec![];
    for _ in 0..TARGETS {
        let (t, r) = chan()?;
        targets.push(t);
        target_rx.push(Some(r));
    }
    let on = case.on as usize % TARGETS;
    let mut alive = vec![true; TARGETS];
    if case.target_closed {
        target_rx[on] = None;
        alive[on] = false;
    }
    let n_rx = count_rx(&case.script);
    let mut fresh_tx = vec![];
    let mut fresh_rx = vec![];
    for _ in 0..n_rx {
        let (t, r) = chan()?;
        fresh_tx.push(t);
        fresh_rx.push(Some(r));
    }
    let env = std::rc::Rc::new(Env {
        payload_tx: payload_tx.clone(),
        targets: targets.clone(),
        fresh_rx: RefCell::new(fresh_rx),
        next_rx: RefCell::new(0),
        nested_results: RefCell::new(vec![]),
        tags: tags(),
    });
    ENV.with(|e| *e.borrow_mut() = Some(env.clone()));

    // model
    let mut sim = Sim { delivered: vec![vec![]; TARGETS], next_rx: 0, lost_rx: vec![], visited_before_failure: 0, failures: 0, nested: 0, nested_with_attachments_both_levels: false };
    let want_ok = simulate(&case.script, on, &alive, &mut sim);

    // the scripted send itself
    let outer: IpcSender<Scripted> = targets[on].clone().to_opaque().to();
    let res = std::panic::catch_unwind(std::panic::AssertUnwindSafe(|| outer.send(Scripted { steps: case.script.clone(), id: 0 })));
    drop(outer);
    ENV.with(|e| *e.borrow_mut() = None);
    let res = match res {
        Ok(r) => r,
        Err(_) => fail!("scripted-send:panicked", "send panicked"),
    };
    ensure!(res.is_ok() == want_ok, "scripted-send:result-differs", "the scripted send returned {:?} but the model says {}", res.as_ref().map_err(|e| e.to_string()), if want_ok { "Ok" } else { "Err" });
    // receivers that were never reached by the serialisation (a failure came first) are still ours
    let unreached: Vec<IpcReceiver<Node>> = env.fresh_rx.borrow_mut().drain(..).flatten().collect();
    let reached = *env.next_rx.borrow();
    drop(env);

    // ordinary traffic afterwards on the same thread, each with exactly its own attachments
    let mut follow_expect = vec![];
    for k in 0..case.followups {
        let (t, r) = chan()?;
        let reg = IpcSharedMemory::from_bytes(&payload::stream(k as u64 + 100, 300 + k as usize));
        let v = Node::List(vec![Node::U32(0xf0 + k as u32), Node::Tx(t), Node::Shm(reg)]);
        let target = (on + 1 + k as usize) % TARGETS;
        let r_send = targets[target].send(v);
        if alive[target] {
            ensure!(r_send.is_ok(), "followup:send-failed", "plain follow-up send failed: {:?}", r_send.map_err(|e| e.to_string()));
            follow_expect.push((target, k, r));
        } else {
            ensure!(r_send.is_err(), "followup:ok-on-dead-channel", "follow-up send to a closed receiver returned Ok");
        }
    }

    // ---- receive everything and compare with the model -------------------------------------------
    let mut received_rx: Vec<(usize, IpcReceiver<Node>)> = vec![];
    let mut received_tx: Vec<(usize, IpcSender<Node>)> = vec![];
    // follow-ups were sent after all scripted messages, so on every channel they come last
    for t in 0..TARGETS {
        let Some(rx) = target_rx[t].as_ref() else { continue };
        let n_scripted = sim.delivered[t].len();
        for (mi, exp) in sim.delivered[t].iter().enumerate() {
            let _ = n_scripted;
            let got = std::panic::catch_unwind(std::panic::AssertUnwindSafe(|| rx.try_recv()));
            let got = match got {
                Ok(g) => g,
                Err(_) => fail!("nested:receiver-panicked", "receiving scripted message {} on target {} panicked (attachment indices do not match the attachments that arrived)", mi, t),
            };
            let v = match got {
                Ok(v) => v,
                Err(e) => fail!("nested:message-missing-or-undecodable", "scripted message {} on target {}: {:?}", mi, t, e),
            };
            let Node::List(items) = v else { fail!("nested:shape-differs", "scripted message decoded to something that is not a list") };
            ensure!(items.len() == exp.len(), "nested:shape-differs", "message {} on target {}: {} items expected, {} arrived", mi, t, exp.len(), items.len());
            for (it, ex) in items.into_iter().zip(exp.iter()) {
                match (it, ex) {
                    (Node::U32(a), Exp::Data(b)) if a == *b => {},
                    (Node::Bool(a), Exp::Mark(b)) if a == *b => {},
                    (Node::Tx(s), Exp::Tx(k)) => received_tx.push((*k, s)),
                    (Node::Rx(r), Exp::Rx(i)) => received_rx.push((*i, r)),
                    (Node::Shm(r), Exp::Shm(len, h)) => {
                        ensure!(r.len() == *len && payload::fnv64(&r) == *h, "nested:region-differs", "message {} on target {}: region of {} bytes arrived as {} bytes with different contents", mi, t, len, r.len());
                    },
                    (got, ex) => fail!("nested:attachment-misplaced", "message {} on target {}: expected {:?}, found {}", mi, t, ex, node::rendered(&got)),
                }
            }
        }
    }
    // follow-ups
    for (target, k, r_probe) in follow_expect {
        let rx = target_rx[target].as_ref().unwrap();
        let got = std::panic::catch_unwind(std::panic::AssertUnwindSafe(|| rx.try_recv()));
        let v = match got {
            Ok(Ok(v)) => v,
            Ok(Err(e)) => fail!("followup:missing", "follow-up message {} did not arrive: {:?}", k, e),
            Err(_) => fail!("followup:receiver-panicked", "receiving follow-up {} panicked", k),
        };
        let rendered = node::rendered(&v);
        let mut hs = vec![];
        node::take_handles(v, &mut hs);
        ensure!(hs.len() == 2, "followup:attachments-differ", "follow-up {} arrived with {} attachments instead of its own two ({})", k, hs.len(), rendered);
        let mut it = hs.into_iter();
        match (it.next(), it.next()) {
            (Some(Handle::Tx(t)), Some(Handle::Shm(reg))) => {
                ensure!(&reg[..] == &payload::stream(k as u64 + 100, 300 + k as usize)[..], "followup:region-differs", "follow-up {} carries a foreign region", k);
                t.send(Node::U64(0xabc0 + k as u64)).map_err(|e| Failure::new("followup:probe-failed", e.to_string()))?;
                match r_probe.try_recv() {
                    Ok(Node::U64(x)) if x == 0xabc0 + k as u64 => {},
                    other => fail!("followup:foreign-sender", "the sender that arrived with follow-up {} is not the one that was attached ({:?})", k, other.map(|n| node::rendered(&n))),
                }
            },
            _ => fail!("followup:attachments-differ", "follow-up {} has the wrong attachment kinds ({})", k, rendered),
        }
    }
    // nothing else may be queued on the targets
    for (t, rx) in target_rx.iter().enumerate() {
        if let Some(rx) = rx {
            match rx.try_recv() {
                Err(TryRecvError::Empty) => {},
                other => fail!("nested:extra-message", "target {} holds an unexpected extra message: {:?}", t, other.map(|n| node::rendered(&n))),
            }
        }
    }

    // ---- identity probes -------------------------------------------------------------------------
    for (n, (k, s)) in received_tx.iter().enumerate() {
        s.send(Node::U64(n as u64)).map_err(|e| Failure::new("nested:probe-failed", e.to_string()))?;
        match payload_rx[*k].try_recv() {
            Ok(Node::U64(x)) if x == n as u64 => {},
            other => fail!("nested:foreign-sender", "a received sender expected to belong to payload channel {} does not ({:?})", k, other.map(|v| node::rendered(&v))),
        }
    }
    for (i, r) in received_rx.iter() {
        fresh_tx[*i].send(Node::U64(*i as u64 + 500)).map_err(|e| Failure::new("nested:probe-failed", format!("send to a delivered receiver failed: {}", e)))?;
        match r.try_recv() {
            Ok(Node::U64(x)) if x == *i as u64 + 500 => {},
            other => fail!("nested:foreign-receiver", "received receiver {} is not the embedded one ({:?})", i, other.map(|v| node::rendered(&v))),
        }
    }

    // ---- nothing retained -------------------------------------------------------------------------
    // receivers consumed by a failed send are gone: sends to them must fail
    for i in &sim.lost_rx {
        ensure!(*i < reached, "harness:model-mismatch", "model says receiver {} was visited, implementation visited {}", i, reached);
        let r = fresh_tx[*i].send(Node::Unit);
        ensure!(r.is_err(), "failed-send:receiver-retained", "a receiver that was embedded in a failed send is still open somewhere: a send to it succeeded");
    }
    drop(unreached);
    drop(received_tx);
    drop(payload_tx);
    // targets: drop them as well so that clones inside nothing remain
    drop(targets);
    for (k, rx) in payload_rx.iter().enumerate() {
        match rx.try_recv() {
            Err(TryRecvError::IpcError(IpcError::Disconnected)) => {},
            Err(TryRecvError::Empty) => fail!("failed-send:sender-retained", "payload channel {}: every handle of the program and every delivered copy is dropped, yet the channel does not disconnect - a sender clone is retained by the library", k),
            other => fail!("failed-send:unexpected", "payload channel {}: {:?}", k, other.map(|v| node::rendered(&v))),
        }
    }
    if case.recv_inside_deserialize {
        sandwich_check(case.followups as usize + 1, case.script.len() % 3 + 1)?;
        #[cfg(not(feature = "inproc"))]
        if case.followups % 2 == 1 {
            sandwich_with_bogus_inner(case.script.len() % 3 + 1)?;
        }
    }
    let nontrivial = (sim.failures > 0 && sim.visited_before_failure > 0) || sim.nested_with_attachments_both_levels;
    let class = format!(
        "{}{}{}{}",
        if sim.failures > 0 { if sim.visited_before_failure > 0 { "failure-after-attachments" } else { "failure" } } else { "no-failure" },
        if sim.nested > 0 { format!("+nested(depth{})", depth(&case.script)) } else { String::new() },
        if sim.nested_with_attachments_both_levels { "+attachments-on-both-levels" } else { "" },
        if case.target_closed { "+os-rejection" } else { "" }
    );
    Ok(Outcome::new(nontrivial, class).with("nested_sends", sim.nested as u64).with("failed_sends", sim.failures as u64))
}

/// The same, but the message received inside the deserialisation is not a valid value of its
/// type: it carries no attachments and its bytes *refer* to attachment number 0.  That receive must
/// report an error - not help itself to attachment 0 of the message being decoded around it - and
/// the outer message must still arrive with exactly its own attachments.
#[cfg(not(feature = "inproc"))]
fn sandwich_with_bogus_inner(n_outer: usize) -> Result<(), Failure> {
    use crate::props::c16::Raw;
    let chan = || ipc::channel::<Node>().map_err(|e| Failure::inconclusive(format!("channel: {}", e)));
    let (ts, rs) = ipc::channel::<Sandwich>().map_err(|e| Failure::inconclusive(format!("channel: {}", e)))?;
    let (ti, ri) = ipc::channel::<ipc::IpcSender<Node>>().map_err(|e| Failure::inconclusive(format!("channel: {}", e)))?;
    let mut probes: Vec<IpcReceiver<Node>> = vec![];
    let mut mk = |n: usize| -> Result<Node, Failure> {
        let mut v = vec![];
        for _ in 0..n {
            let (t, r) = chan()?;
            probes.push(r);
            v.push(Node::Tx(t));
        }
        Ok(Node::List(v))
    };
    let a = mk(n_outer)?;
    let b = mk(n_outer)?;
    // an `IpcSender` is encoded as the index of its attachment: nothing is attached, and the index
    // is that of the first attachment the outer message has not handed out yet when the hook runs
    let raw_ti: ipc::IpcSender<Raw> = ti.to_opaque().to();
    raw_ti.send(Raw { bytes: (n_outer as u64).to_le_bytes().to_vec(), atts: vec![] }).map_err(|e| Failure::new("deser-recv:send-failed", e.to_string()))?;
    ts.send(Sandwich(a, HookPoint, b)).map_err(|e| Failure::new("deser-recv:send-failed", e.to_string()))?;
    let inner_got: std::rc::Rc<RefCell<Option<bool>>> = Default::default();
    let ig = inner_got.clone();
    DESER_HOOK.with(|h| {
        *h.borrow_mut() = Some(Box::new(move || {
            *ig.borrow_mut() = Some(ri.try_recv().is_ok());
        }))
    });
    let got = std::panic::catch_unwind(std::panic::AssertUnwindSafe(|| rs.try_recv()));
    DESER_HOOK.with(|h| *h.borrow_mut() = None);
    match inner_got.borrow_mut().take() {
        Some(false) => {},
        Some(true) => fail!("deser-recv:bogus-inner-decoded", "a message without attachments whose bytes refer to an attachment number, received inside the deserialisation of another message, decoded to an endpoint (taken from the enclosing message)"),
        None => fail!("deser-recv:hook-not-run", "the deserialisation hook did not run"),
    }
    let Sandwich(ga, _, gb) = match got {
        Ok(Ok(v)) => v,
        Ok(Err(e)) => fail!("deser-recv:outer-lost", "outer message did not decode after an undecodable message was received inside its deserialisation: {:?}", e),
        Err(_) => fail!("deser-recv:panicked", "decoding the outer message panicked after a receive inside its deserialisation"),
    };
    let mut hs = vec![];
    node::take_handles(ga, &mut hs);
    node::take_handles(gb, &mut hs);
    ensure!(hs.len() == probes.len(), "deser-recv:attachment-missing", "{} senders attached to the outer message, {} arrived", probes.len(), hs.len());
    for (pi, h) in hs.into_iter().enumerate() {
        match h {
            Handle::Tx(t) => {
                t.send(Node::U64(pi as u64)).map_err(|e| Failure::new("deser-recv:probe-failed", e.to_string()))?;
                match probes[pi].try_recv() {
                    Ok(Node::U64(x)) if x == pi as u64 => {},
                    other => fail!("deser-recv:attachment-misassigned", "sender number {} of the outer message is not the one that was attached there ({:?})", pi, other.map(|v| node::rendered(&v))),
                }
            },
            _ => fail!("deser-recv:attachment-kind", "unexpected attachment kind"),
        }
    }
    Ok(())
}

/// A receive issued from inside a deserialisation: the outer value is `(a, hook, b)`; decoding the
/// hook receives a message with `n_inner` attachments on another channel; `a` carries `n_outer`
/// attachments and so does `b`.  Each must arrive with exactly its own attachments.
fn sandwich_check(n_outer: usize, n_inner: usize) -> Result<(), Failure> {
    let chan = || ipc::channel::<Node>().map_err(|e| Failure::inconclusive(format!("channel: {}", e)));
    let (ts, rs) = ipc::channel::<Sandwich>().map_err(|e| Failure::inconclusive(format!("channel: {}", e)))?;
    let (ti, ri) = chan()?;
    let mut probes: Vec<IpcReceiver<Node>> = vec![];
    let mk = |n: usize, probes: &mut Vec<IpcReceiver<Node>>| -> Result<Node, Failure> {
        let mut v = vec![];
        for k in 0..n {
            let (t, r) = chan()?;
            probes.push(r);
            v.push(Node::Tx(t));
            if k % 2 == 0 {
                v.push(Node::Shm(IpcSharedMemory::from_bytes(&payload::stream(probes.len() as u64, 100 + probes.len()))));
            }
        }
        Ok(Node::List(v))
    };
    let a = mk(n_outer, &mut probes)?;
    let inner = mk(n_inner, &mut probes)?;
    let b = mk(n_outer, &mut probes)?;
    ti.send(inner).map_err(|e| Failure::new("deser-recv:send-failed", e.to_string()))?;
    ts.send(Sandwich(a, HookPoint, b)).map_err(|e| Failure::new("deser-recv:send-failed", e.to_string()))?;
    let inner_got: std::rc::Rc<RefCell<Option<Result<Node, String>>>> = Default::default();
    let ig = inner_got.clone();
    DESER_HOOK.with(|h| {
        *h.borrow_mut() = Some(Box::new(move || {
            *ig.borrow_mut() = Some(ri.try_recv().map_err(|e| format!("{:?}", e)));
        }))
    });
    let got = std::panic::catch_unwind(std::panic::AssertUnwindSafe(|| rs.try_recv()));
    DESER_HOOK.with(|h| *h.borrow_mut() = None);
    let Sandwich(ga, _, gb) = match got {
        Ok(Ok(v)) => v,
        Ok(Err(e)) => fail!("deser-recv:outer-lost", "outer message did not decode: {:?}", e),
        Err(_) => fail!("deser-recv:panicked", "decoding the outer message panicked after a receive inside its deserialisation"),
    };
    let gi = match inner_got.borrow_mut().take() {
        Some(Ok(v)) => v,
        Some(Err(e)) => fail!("deser-recv:inner-lost", "inner message: {}", e),
        None => fail!("deser-recv:hook-not-run", "the deserialisation hook did not run"),
    };
    // probe in sending order: a, inner, b
    let mut hs = vec![];
    node::take_handles(ga, &mut hs);
    node::take_handles(gi, &mut hs);
    node::take_handles(gb, &mut hs);
    let mut pi = 0;
    let mut nreg = 0;
    for h in hs {
        match h {
            Handle::Tx(t) => {
                ensure!(pi < probes.len(), "deser-recv:extra-attachment", "more senders arrived than were attached");
                t.send(Node::U64(pi as u64)).map_err(|e| Failure::new("deser-recv:probe-failed", e.to_string()))?;
                match probes[pi].try_recv() {
                    Ok(Node::U64(x)) if x == pi as u64 => {},
                    other => fail!("deser-recv:attachment-misassigned", "sender number {} (in sending order a, inner, b) is not the one that was attached there ({:?})", pi, other.map(|v| node::rendered(&v))),
                }
                pi += 1;
            },
            Handle::Shm(r) => {
                nreg += 1;
                ensure!(&r[..] == &payload::stream(pi as u64, 100 + pi)[..], "deser-recv:region-misassigned", "a region arrived in the wrong message or position");
            },
            _ => fail!("deser-recv:attachment-kind", "unexpected attachment kind"),
        }
    }
    let _ = nreg;
    ensure!(pi == probes.len(), "deser-recv:attachment-missing", "{} senders attached, {} arrived", probes.len(), pi);
    Ok(())
}
