//! C15 - messages with too many attachments for one message are refused, not mangled.
//!
//! Domain: attachment counts 0..300 (enumerated), generated sender/receiver/region mixtures, data
//! part in {empty, small, exactly one packet, one byte over, multi-packet}; through `ipc::` values
//! and through `platform::OsIpcSender::send` vectors.
//! Oracle: send = Err => a follow-up small message on the same channel arrives intact (channel
//! usable) and nothing else does; send = Ok => the message arrives with *all* its attachments, each
//! probed for identity and position; never a receiver panic/abort/hang.

use crate::engine::{Ctx, Failure, Outcome, Prop};
use crate::node::{self, Handle, Node};
use crate::payload;
use crate::props::c01;
use crate::sandbox;
use crate::world::bincode_size;
use crate::{ensure, fail};
use ipc_channel::ipc::{self, IpcSender, IpcSharedMemory, TryRecvError};
use ipc_channel::platform::{self, OsIpcChannel, OsIpcSharedMemory};
use proptest::prelude::*;
use serde::{Deserialize, Serialize};

pub struct C15;

#[derive(Clone, Debug, Serialize, Deserialize)]
pub struct Case {
    pub count: u16,
    /// mixture: kind of attachment i = table[(mix >> (2*(i%16))) & 3] (3 maps to sender)
    pub mix: u32,
    /// 0 empty, 1 small, 2 exactly one packet, 3 one byte over, 4 multi-packet
    pub data: u8,
    /// use the platform-level API
    pub platform: bool,
}

const K: usize = 6;

fn kind(mix: u32, i: usize) -> u8 {
    match (mix >> (2 * (i % 16))) & 3 {
        1 => 1,
        2 => 2,
        _ => 0,
    }
}

fn target_len(data: u8) -> usize {
    let (f1, f) = c01::capacities();
    if f1 > 16384 {
        // real (large) packets: the message and its follow-up are sent before anything is
        // received, so stay inside the kernel buffers (the boundaries are visited with 4 KiB packets)
        return match data % 5 {
            0 => 0,
            1 => 500,
            2 => 9000,
            3 => 30_000,
            _ => 60_000,
        };
    }
    match data % 5 {
        0 => 0,
        1 => 500,
        2 => f1,
        3 => f1 + 1,
        _ => f1 + f / 4,
    }
}

impl Prop for C15 {
    type Case = Case;
    const ID: &'static str = "C15";

    fn setup(ctx: &Ctx) {
        c01::measure_capacities_for(ctx);
    }

    fn cases(ctx: &Ctx) -> u32 {
        ctx.param_u64("cases", ctx.pick(300, 20000) as u64) as u32
    }

    fn strategy(_ctx: &Ctx) -> BoxedStrategy<Case> {
        (prop_oneof![0u16..=300, 56u16..=72, 248u16..=258], any::<u32>(), 0u8..5, proptest::bool::weighted(0.25))
            .prop_map(|(count, mix, data, platform)| Case { count, mix, data, platform })
            .boxed()
    }

    fn enumerated(_ctx: &Ctx) -> Vec<Case> {
        let mut v = vec![];
        for count in 0..=300u16 {
            for data in 0..5u8 {
                // all senders; and a fixed mixture of the three kinds
                v.push(Case { count, mix: 0, data, platform: false });
                v.push(Case { count, mix: 0x9246_1b6c ^ ((count as u32) << 3), data, platform: false });
            }
            v.push(Case { count, mix: 0, data: (count % 5) as u8, platform: true });
        }
        v
    }

    fn exec(_ctx: &Ctx, case: &Case) -> Result<Outcome, Failure> {
        let fds0 = crate::fdsnap::count_fds();
        let r = if case.platform && !cfg!(feature = "inproc") { platform_case(case) } else { ipc_case(case) };
        let out = r?;
        let fds1 = crate::fdsnap::count_fds();
        ensure!(fds0 == fds1, "attach:descriptors-leaked", "descriptor count {} -> {} after a message with {} attachments", fds0, fds1, case.count);
        Ok(out)
    }
}

fn classify(case: &Case, accepted: bool) -> Outcome {
    let c = case.count as i32;
    let near = (c - 63).abs() <= 3 || (c - 64).abs() <= 3 || (c - 253).abs() <= 3;
    let nt = near || c > 64;
    let class = format!(
        "{}/{}/{}{}",
        if case.platform { "platform" } else { "ipc" },
        if accepted { "accepted" } else { "refused" },
        match c {
            0..=59 => "0..59",
            60..=67 => "60..67",
            68..=249 => "68..249",
            250..=256 => "250..256",
            _ => "257..300",
        },
        ["/empty", "/small", "/one-packet", "/one-over", "/multi"][case.data as usize % 5]
    );
    Outcome::new(nt, class)
}

fn ipc_case(case: &Case) -> Result<Outcome, Failure> {
    let chan = || ipc::channel::<Node>().map_err(|e| Failure::inconclusive(format!("channel: {}", e)));
    let (tx, rx) = chan()?;
    let mut probe_tx = vec![];
    let mut probe_rx = vec![];
    for _ in 0..K {
        let (t, r) = chan()?;
        probe_tx.push(t);
        probe_rx.push(r);
    }
    let n = case.count as usize;
    let mut items = vec![Node::Tagged { chan: 0, sender: 0, seq: 0, body: vec![] }];
    let mut kept_tx: Vec<Option<IpcSender<Node>>> = vec![];
    for i in 0..n {
        match kind(case.mix, i) {
            0 => {
                items.push(Node::Tx(probe_tx[i % K].clone()));
                kept_tx.push(None);
            },
            1 => {
                let (t, r) = chan()?;
                items.push(Node::Rx(r));
                kept_tx.push(Some(t));
            },
            _ => {
                items.push(Node::Shm(IpcSharedMemory::from_bytes(&payload::stream(i as u64 + 1, 48 + i % 9))));
                kept_tx.push(None);
            },
        }
    }
    let mut value = Node::List(items);
    let base = bincode_size(&value);
    let target = target_len(case.data);
    let pad = target.saturating_sub(base).max(payload::HEADER);
    if let Node::List(v) = &mut value {
        if let Node::Tagged { body, .. } = &mut v[0] {
            *body = payload::make(0, 0, 0, pad, n as u64 * 7 + 1);
        }
    }
    let want = node::rendered(&value);
    let r_send = tx.send(value);
    let accepted = r_send.is_ok();
    let r_follow = tx.send(Node::U32(0xf0110));
    ensure!(r_follow.is_ok(), "attach:channel-unusable-after-send", "after a message with {} attachments (send result {:?}) the channel refuses a plain message: {:?}", n, r_send.as_ref().map_err(|e| e.to_string()), r_follow.map_err(|e| e.to_string()));

    let got = sandbox::watched(move || {
        let a = std::panic::catch_unwind(std::panic::AssertUnwindSafe(|| rx.recv()));
        let b = if accepted { Some(std::panic::catch_unwind(std::panic::AssertUnwindSafe(|| rx.recv()))) } else { None };
        let c = rx.try_recv();
        (a, b, c)
    });
    let (a, b, c) = match got {
        Ok(x) => x,
        Err(h) => return Err(sandbox::hang_failure("attach:receiver-hangs", &format!("receiving after a message with {} attachments (send {})", n, if accepted { "accepted" } else { "refused" }), h)),
    };
    let first = match a {
        Ok(x) => x,
        Err(_) => fail!("attach:receiver-panicked", "the receiver panicked on a message with {} attachments that send had {}: {:?}", n, if accepted { "accepted" } else { "refused" }, crate::take_panics()),
    };
    if !accepted {
        match first {
            Ok(Node::U32(0xf0110)) => {},
            other => fail!("attach:refused-but-something-arrived", "send with {} attachments returned an error, yet the receiver got {:?} before the follow-up", n, other.map(|v| node::rendered(&v)[..40.min(node::rendered(&v).len())].to_string())),
        }
    } else {
        let v = match first {
            Ok(v) => v,
            Err(e) => fail!("attach:accepted-but-not-delivered", "send with {} attachments returned Ok but the receiver got {:?}", n, e),
        };
        let gr = node::rendered(&v);
        ensure!(gr == want, "attach:accepted-but-mangled", "send with {} attachments returned Ok but the value arrived altered (rendering differs)", n);
        let mut hs = vec![];
        node::take_handles(v, &mut hs);
        ensure!(hs.len() == n, "attach:attachments-missing", "{} attachments sent, {} arrived", n, hs.len());
        for (i, h) in hs.into_iter().enumerate() {
            match (kind(case.mix, i), h) {
                (0, Handle::Tx(t)) => {
                    t.send(Node::U64(i as u64)).map_err(|e| Failure::new("attach:probe-failed", e.to_string()))?;
                    match probe_rx[i % K].try_recv() {
                        Ok(Node::U64(x)) if x == i as u64 => {},
                        other => fail!("attach:sender-misassigned", "attachment {} of {}: the received sender is not the attached channel ({:?})", i, n, other.map(|v| node::rendered(&v))),
                    }
                },
                (1, Handle::Rx(r)) => {
                    kept_tx[i].as_ref().unwrap().send(Node::U64(i as u64 + 9000)).map_err(|e| Failure::new("attach:probe-failed", e.to_string()))?;
                    match r.try_recv() {
                        Ok(Node::U64(x)) if x == i as u64 + 9000 => {},
                        other => fail!("attach:receiver-misassigned", "attachment {} of {}: the received receiver is not the attached channel ({:?})", i, n, other.map(|v| node::rendered(&v))),
                    }
                },
                (2, Handle::Shm(reg)) => {
                    ensure!(&reg[..] == &payload::stream(i as u64 + 1, 48 + i % 9)[..], "attach:region-misassigned", "attachment {} of {}: region contents differ", i, n);
                },
                _ => fail!("attach:kind-differs", "attachment {} of {} arrived as a different kind", i, n),
            }
        }
        match b {
            Some(Ok(Ok(Node::U32(0xf0110)))) => {},
            Some(Err(_)) => fail!("attach:receiver-panicked", "the receiver panicked on the follow-up message: {:?}", crate::take_panics()),
            other => fail!("attach:follow-up-lost", "the follow-up after an accepted message with {} attachments did not arrive intact: {:?}", n, other.map(|r| r.map(|x| x.map(|v| node::rendered(&v))).ok())),
        }
    }
    match c {
        Err(TryRecvError::Empty) => {},
        other => fail!("attach:extra-delivery", "something else was delivered after the expected messages: {:?}", other.map(|v| node::rendered(&v)[..40.min(node::rendered(&v).len())].to_string())),
    }
    Ok(classify(case, accepted))
}

#[cfg(feature = "inproc")]
fn platform_case(case: &Case) -> Result<Outcome, Failure> {
    ipc_case(case)
}

#[cfg(not(feature = "inproc"))]
fn platform_case(case: &Case) -> Result<Outcome, Failure> {
    let n = case.count as usize;
    let (tx, rx) = platform::channel().map_err(|e| Failure::inconclusive(format!("platform::channel: {}", e)))?;
    let mut probes = vec![];
    for _ in 0..K {
        probes.push(platform::channel().map_err(|e| Failure::inconclusive(format!("platform::channel: {}", e)))?);
    }
    // half senders, half regions (channels first, then regions, as the platform API orders them)
    let n_ch = n - n / 3;
    let n_reg = n / 3;
    let channels: Vec<OsIpcChannel> = (0..n_ch).map(|i| OsIpcChannel::Sender(probes[i % K].0.clone())).collect();
    let regions: Vec<OsIpcSharedMemory> = (0..n_reg).map(|i| OsIpcSharedMemory::from_bytes(&payload::stream(i as u64 + 3, 40 + i % 7))).collect();
    let data = payload::make(0, 0, 0, target_len(case.data).max(payload::HEADER), n as u64 + 5);
    let r_send = tx.send(&data, channels, regions);
    let accepted = r_send.is_ok();
    let follow = payload::make(0, 0, 1, 64, 99);
    let r_follow = tx.send(&follow, vec![], vec![]);
    ensure!(r_follow.is_ok(), "attach:channel-unusable-after-send", "after a platform-level message with {} attachments (accepted: {}) the channel refuses a plain message", n, accepted);
    let got = sandbox::watched(move || {
        let a = std::panic::catch_unwind(std::panic::AssertUnwindSafe(|| rx.recv()));
        let b = if accepted { Some(std::panic::catch_unwind(std::panic::AssertUnwindSafe(|| rx.recv()))) } else { None };
        let c = rx.try_recv().is_ok();
        (a, b, c)
    });
    let (a, b, c) = match got {
        Ok(x) => x,
        Err(h) => return Err(sandbox::hang_failure("attach:receiver-hangs", &format!("platform-level receive after a message with {} attachments", n), h)),
    };
    let first = match a {
        Ok(x) => x,
        Err(_) => fail!("attach:receiver-panicked", "platform-level receiver panicked ({} attachments): {:?}", n, crate::take_panics()),
    };
    if !accepted {
        match first {
            Ok((d, ch, sh)) if d == follow && ch.is_empty() && sh.is_empty() => {},
            Ok((d, ch, sh)) => fail!("attach:refused-but-something-arrived", "refused message: receiver got {} bytes, {} channels, {} regions before the follow-up", d.len(), ch.len(), sh.len()),
            Err(e) => fail!("attach:refused-but-something-arrived", "refused message: receiver got error {:?} before the follow-up", e),
        }
    } else {
        let (d, mut ch, sh) = match first {
            Ok(x) => x,
            Err(e) => fail!("attach:accepted-but-not-delivered", "platform send with {} attachments returned Ok but the receiver got {:?}", n, e),
        };
        ensure!(d == data, "attach:accepted-but-mangled", "data part altered ({} vs {} bytes)", d.len(), data.len());
        ensure!(ch.len() == n_ch && sh.len() == n_reg, "attach:attachments-missing", "{} channels + {} regions sent, {} + {} arrived", n_ch, n_reg, ch.len(), sh.len());
        for (i, c) in ch.iter_mut().enumerate() {
            let s = c.to_sender();
            s.send(&(i as u64).to_le_bytes(), vec![], vec![]).map_err(|e| Failure::new("attach:probe-failed", format!("{:?}", e)))?;
            match probes[i % K].1.try_recv() {
                Ok((d, _, _)) if d == (i as u64).to_le_bytes() => {},
                other => fail!("attach:sender-misassigned", "platform attachment {} of {} is not the attached channel ({:?})", i, n, other.map(|x| x.0.len()).map_err(|e| format!("{:?}", e))),
            }
        }
        for (i, r) in sh.iter().enumerate() {
            ensure!(&r[..] == &payload::stream(i as u64 + 3, 40 + i % 7)[..], "attach:region-misassigned", "platform region {} differs", i);
        }
        match b {
            Some(Ok(Ok((d, ch, sh)))) if d == follow && ch.is_empty() && sh.is_empty() => {},
            Some(Err(_)) => fail!("attach:receiver-panicked", "platform-level receiver panicked on the follow-up: {:?}", crate::take_panics()),
            _ => fail!("attach:follow-up-lost", "the follow-up after an accepted platform message with {} attachments did not arrive intact", n),
        }
    }
    ensure!(!c, "attach:extra-delivery", "something else was delivered after the expected messages");
    Ok(classify(case, accepted))
}
