//! C16 - undecodable or mismatched payloads produce errors, not panics or leaks.
//!
//! Arbitrary (bytes, attachments) pairs are put on the wire through the public API by the `Raw`
//! type: its `Serialize` writes the bytes as a fixed-size tuple of `u8` (bincode: no length prefix)
//! and registers the attachments by serialising them into a null serializer.  The receiving side
//! then decodes the message as one of 13 expected types (directly, through `try_recv`, through a
//! receiver set + `OpaqueIpcMessage::to`), or drops it undecoded (receiver set, router).
//! Bytes are random or structured mutations of valid encodings (bit flips, truncation, extension,
//! 8-byte overwrites with special values aimed at length prefixes and attachment indices: out of
//! range, duplicated, usize::MAX).
//! Oracle: the result is Ok(v) or Err(_) - never a panic or abort; every endpoint/region inside an
//! Ok(v) is one of the attached ones and each is handed out at most once (identity probes); after
//! dropping everything, a channel whose only sender was an attachment reports Disconnected, a
//! channel whose receiver was an attachment refuses sends, and the descriptor table is back to its
//! baseline.

use crate::engine::{Ctx, Failure, Outcome, Prop};
use crate::fdsnap;
use crate::node::{self, Handle, Node};
use crate::payload;
use crate::sandbox;
use crate::{ensure, fail};
use ipc_channel::ipc::{
    self, IpcBytesSender, IpcError, IpcReceiver, IpcReceiverSet, IpcSelectionResult, IpcSender, IpcSharedMemory, OpaqueIpcReceiver,
    OpaqueIpcSender, TryRecvError,
};
use ipc_channel::router::ROUTER;
use proptest::prelude::*;
use serde::de::DeserializeOwned;
use serde::ser::{SerializeTuple, Serializer};
use serde::{Deserialize, Serialize};
use std::collections::BTreeMap;

pub struct C16;

pub const NTYPES: u8 = 13;

#[derive(Clone, Debug, Serialize, Deserialize)]
pub enum Special {
    Zero,
    One,
    Two,
    Count,
    CountMinus1,
    Max,
    MaxMinus1,
    Val(u64),
}

#[derive(Clone, Debug, Serialize, Deserialize)]
pub enum Mutation {
    None,
    BitFlip { pos: u16, bit: u8 },
    Truncate { keep: u16 },
    Extend { n: u8, seed: u64 },
    /// overwrite 8 bytes at an 8-byte field boundary chosen by `field` with a special value
    SetU64 { field: u16, val: Special },
    /// overwrite 4 bytes (enum tags)
    SetU32 { field: u16, val: u32 },
}

#[derive(Clone, Debug, Serialize, Deserialize)]
pub enum Gen {
    /// literal bytes (coverage-guided fuzzing, replay of fuzzer artifacts)
    Raw(Vec<u8>),
    Random { len: u16, seed: u64 },
    /// valid encoding of type `base` (usually the expected type), then mutations
    Valid { base: u8, seed: u64, muts: Vec<Mutation> },
}

#[derive(Clone, Copy, Debug, Serialize, Deserialize, PartialEq)]
pub enum Att {
    Tx,
    Rx,
    Shm,
}

#[derive(Clone, Debug, Serialize, Deserialize)]
pub struct Case {
    pub ty: u8,
    pub gen: Gen,
    pub atts: Vec<Att>,
    /// 0 recv, 1 try_recv, 2 set select + to(), 3 set select + drop undecoded, 4 router + drop undecoded
    pub via: u8,
    /// descriptor number 0 is free when the message is received (a process without stdin): the
    /// first attachment is installed as descriptor 0
    #[serde(default)]
    pub fd0: bool,
    /// the program keeps a second handle of every attached sender: whatever happens to the
    /// attached copy (decoded, refused, dropped undecoded), the channel must stay usable through
    /// the kept handle
    #[serde(default)]
    pub keep_original: bool,
}

// ---- Raw: arbitrary bytes + attachments through the public API ---------------------------------

pub enum AttReal {
    Tx(IpcSender<Node>),
    Rx(IpcReceiver<Node>),
    Shm(IpcSharedMemory),
}

pub struct Raw {
    pub bytes: Vec<u8>,
    pub atts: Vec<AttReal>,
}

impl<'de> Deserialize<'de> for Raw {
    fn deserialize<D: serde::Deserializer<'de>>(_d: D) -> Result<Self, D::Error> {
        Err(serde::de::Error::custom("Raw is never decoded"))
    }
}

impl Serialize for Raw {
    fn serialize<S: Serializer>(&self, s: S) -> Result<S::Ok, S::Error> {
        // register the attachments (their indices go to a sink)
        for a in &self.atts {
            let r = match a {
                AttReal::Tx(t) => t.serialize(Sink),
                AttReal::Rx(r) => r.serialize(Sink),
                AttReal::Shm(m) => m.serialize(Sink),
            };
            r.map_err(|_| serde::ser::Error::custom("sink"))?;
        }
        let mut t = s.serialize_tuple(self.bytes.len())?;
        for b in &self.bytes {
            t.serialize_element(b)?;
        }
        t.end()
    }
}

/// A serializer that accepts integers and forgets them.
struct Sink;
#[derive(Debug)]
struct SinkErr;
impl std::fmt::Display for SinkErr {
    fn fmt(&self, f: &mut std::fmt::Formatter) -> std::fmt::Result {
        write!(f, "sink")
    }
}
impl std::error::Error for SinkErr {}
impl serde::ser::Error for SinkErr {
    fn custom<T: std::fmt::Display>(_m: T) -> Self {
        SinkErr
    }
}
macro_rules! sink_ints {
    ($($f:ident $t:ty),*) => { $(fn $f(self, _v: $t) -> Result<(), SinkErr> { Ok(()) })* };
}
impl Serializer for Sink {
    type Ok = ();
    type Error = SinkErr;
    type SerializeSeq = serde::ser::Impossible<(), SinkErr>;
    type SerializeTuple = serde::ser::Impossible<(), SinkErr>;
    type SerializeTupleStruct = serde::ser::Impossible<(), SinkErr>;
    type SerializeTupleVariant = serde::ser::Impossible<(), SinkErr>;
    type SerializeMap = serde::ser::Impossible<(), SinkErr>;
    type SerializeStruct = serde::ser::Impossible<(), SinkErr>;
    type SerializeStructVariant = serde::ser::Impossible<(), SinkErr>;
    sink_ints!(serialize_bool bool, serialize_i8 i8, serialize_i16 i16, serialize_i32 i32, serialize_i64 i64, serialize_u8 u8, serialize_u16 u16, serialize_u32 u32, serialize_u64 u64, serialize_f32 f32, serialize_f64 f64, serialize_char char, serialize_str &str, serialize_bytes &[u8]);
    fn serialize_none(self) -> Result<(), SinkErr> {
        Ok(())
    }
    fn serialize_some<T: ?Sized + Serialize>(self, _v: &T) -> Result<(), SinkErr> {
        Ok(())
    }
    fn serialize_unit(self) -> Result<(), SinkErr> {
        Ok(())
    }
    fn serialize_unit_struct(self, _n: &'static str) -> Result<(), SinkErr> {
        Ok(())
    }
    fn serialize_unit_variant(self, _n: &'static str, _i: u32, _v: &'static str) -> Result<(), SinkErr> {
        Ok(())
    }
    fn serialize_newtype_struct<T: ?Sized + Serialize>(self, _n: &'static str, v: &T) -> Result<(), SinkErr> {
        v.serialize(Sink)
    }
    fn serialize_newtype_variant<T: ?Sized + Serialize>(self, _n: &'static str, _i: u32, _v: &'static str, v: &T) -> Result<(), SinkErr> {
        v.serialize(Sink)
    }
    fn serialize_seq(self, _l: Option<usize>) -> Result<Self::SerializeSeq, SinkErr> {
        Err(SinkErr)
    }
    fn serialize_tuple(self, _l: usize) -> Result<Self::SerializeTuple, SinkErr> {
        Err(SinkErr)
    }
    fn serialize_tuple_struct(self, _n: &'static str, _l: usize) -> Result<Self::SerializeTupleStruct, SinkErr> {
        Err(SinkErr)
    }
    fn serialize_tuple_variant(self, _n: &'static str, _i: u32, _v: &'static str, _l: usize) -> Result<Self::SerializeTupleVariant, SinkErr> {
        Err(SinkErr)
    }
    fn serialize_map(self, _l: Option<usize>) -> Result<Self::SerializeMap, SinkErr> {
        Err(SinkErr)
    }
    fn serialize_struct(self, _n: &'static str, _l: usize) -> Result<Self::SerializeStruct, SinkErr> {
        Err(SinkErr)
    }
    fn serialize_struct_variant(self, _n: &'static str, _i: u32, _v: &'static str, _l: usize) -> Result<Self::SerializeStructVariant, SinkErr> {
        Err(SinkErr)
    }
}

// ---- expected types -----------------------------------------------------------------------------

#[derive(Serialize, Deserialize, Debug)]
enum E {
    A,
    B(u32),
    C { x: String, y: Vec<u8> },
}

#[derive(Serialize, Deserialize, Debug)]
struct S {
    m: BTreeMap<String, u32>,
    o: OpaqueIpcSender,
    r: Option<OpaqueIpcReceiver>,
}

struct Xs(u64);
impl Xs {
    fn next(&mut self) -> u64 {
        self.0 ^= self.0 << 13;
        self.0 ^= self.0 >> 7;
        self.0 ^= self.0 << 17;
        self.0
    }
}

fn put_u64(v: &mut Vec<u8>, x: u64) {
    v.extend_from_slice(&x.to_le_bytes());
}
fn put_u32(v: &mut Vec<u8>, x: u32) {
    v.extend_from_slice(&x.to_le_bytes());
}
fn put_str(v: &mut Vec<u8>, x: &mut Xs, max: u64) {
    let n = x.next() % (max + 1);
    put_u64(v, n);
    for _ in 0..n {
        v.push(b'a' + (x.next() % 26) as u8);
    }
}

/// A valid bincode encoding of a value of type `ty` that references the attachments in order
/// (channels and regions are indexed separately, as the library does).
fn valid_encoding(ty: u8, seed: u64, atts: &[Att]) -> Vec<u8> {
    let mut x = Xs(seed | 1);
    let mut v = vec![];
    let chans: Vec<usize> = atts.iter().enumerate().filter(|(_, a)| **a != Att::Shm).map(|(i, _)| i).collect();
    let n_shm = atts.iter().filter(|a| **a == Att::Shm).count() as u64;
    let first_of = |k: Att| -> u64 {
        // index (within the channel list) of the first attachment of that kind, else 0
        chans.iter().position(|&i| atts[i] == k).unwrap_or(0) as u64
    };
    match ty % NTYPES {
        0 => v.push(x.next() as u8),
        1 => put_u64(&mut v, x.next()),
        2 => put_str(&mut v, &mut x, 40),
        3 => {
            let n = x.next() % 20;
            put_u64(&mut v, n);
            for _ in 0..n {
                put_u32(&mut v, x.next() as u32);
            }
        },
        4 => {
            if x.next() % 3 == 0 {
                v.push(0);
            } else {
                v.push(1);
                v.extend_from_slice(&(x.next() as u16).to_le_bytes());
                put_str(&mut v, &mut x, 20);
            }
        },
        5 => match x.next() % 3 {
            0 => put_u32(&mut v, 0),
            1 => {
                put_u32(&mut v, 1);
                put_u32(&mut v, x.next() as u32);
            },
            _ => {
                put_u32(&mut v, 2);
                put_str(&mut v, &mut x, 12);
                put_str(&mut v, &mut x, 30);
            },
        },
        6 => put_u64(&mut v, first_of(Att::Tx)),
        7 => put_u64(&mut v, first_of(Att::Rx)),
        8 => put_u64(&mut v, if n_shm == 0 { u64::MAX } else { 0 }),
        9 => {
            put_u64(&mut v, first_of(Att::Tx));
            put_u64(&mut v, n_shm);
            for i in 0..n_shm {
                put_u64(&mut v, i);
            }
        },
        10 => {
            // Vec<IpcBytesSender>: every sender-kind attachment
            let txs: Vec<u64> = chans.iter().enumerate().filter(|(_, &i)| atts[i] == Att::Tx).map(|(p, _)| p as u64).collect();
            put_u64(&mut v, txs.len() as u64);
            for p in txs {
                put_u64(&mut v, p);
            }
        },
        11 => {
            let n = x.next() % 4;
            put_u64(&mut v, n);
            for k in 0..n {
                // BTreeMap keys must be distinct for a faithful encoding; order does not matter to serde
                put_u64(&mut v, 2);
                v.push(b'k');
                v.push(b'0' + k as u8);
                put_u32(&mut v, x.next() as u32);
            }
            put_u64(&mut v, first_of(Att::Tx));
            if chans.iter().any(|&i| atts[i] == Att::Rx) {
                v.push(1);
                put_u64(&mut v, first_of(Att::Rx));
            } else {
                v.push(0);
            }
        },
        _ => {
            // Node::List of every attachment in order + some data
            put_u32(&mut v, 13);
            put_u64(&mut v, atts.len() as u64 + 1);
            let (mut ci, mut si) = (0u64, 0u64);
            for a in atts {
                match a {
                    Att::Tx => {
                        put_u32(&mut v, 20);
                        put_u64(&mut v, ci);
                        ci += 1;
                    },
                    Att::Rx => {
                        put_u32(&mut v, 21);
                        put_u64(&mut v, ci);
                        ci += 1;
                    },
                    Att::Shm => {
                        put_u32(&mut v, 26);
                        put_u64(&mut v, si);
                        si += 1;
                    },
                }
            }
            put_u32(&mut v, 4);
            put_u32(&mut v, x.next() as u32);
        },
    }
    v
}

fn special(val: &Special, count: u64) -> u64 {
    match val {
        Special::Zero => 0,
        Special::One => 1,
        Special::Two => 2,
        Special::Count => count,
        Special::CountMinus1 => count.wrapping_sub(1),
        Special::Max => u64::MAX,
        Special::MaxMinus1 => u64::MAX - 1,
        Special::Val(v) => *v,
    }
}

fn build_bytes(gen: &Gen, atts: &[Att]) -> Vec<u8> {
    match gen {
        Gen::Raw(b) => b.iter().copied().take(4096).collect(),
        Gen::Random { len, seed } => {
            let mut x = Xs(*seed | 1);
            (0..(*len as usize % 4097)).map(|_| x.next() as u8).collect()
        },
        Gen::Valid { base, seed, muts } => {
            let mut v = valid_encoding(*base, *seed, atts);
            for m in muts {
                match m {
                    Mutation::None => {},
                    Mutation::BitFlip { pos, bit } => {
                        if !v.is_empty() {
                            let i = (*pos as usize * v.len()) >> 16;
                            v[i] ^= 1 << (bit % 8);
                        }
                    },
                    Mutation::Truncate { keep } => {
                        let k = (*keep as usize * (v.len() + 1)) >> 16;
                        v.truncate(k);
                    },
                    Mutation::Extend { n, seed } => {
                        let mut x = Xs(*seed | 1);
                        for _ in 0..*n {
                            v.push(x.next() as u8);
                        }
                    },
                    Mutation::SetU64 { field, val } => {
                        if v.len() >= 8 {
                            let slots = v.len() - 7;
                            let i = (*field as usize * slots) >> 16;
                            let c = atts.iter().filter(|a| **a != Att::Shm).count() as u64;
                            v[i..i + 8].copy_from_slice(&special(val, c).to_le_bytes());
                        }
                    },
                    Mutation::SetU32 { field, val } => {
                        if v.len() >= 4 {
                            let slots = v.len() - 3;
                            let i = (*field as usize * slots) >> 16;
                            v[i..i + 4].copy_from_slice(&val.to_le_bytes());
                        }
                    },
                }
            }
            v.truncate(4096);
            v
        },
    }
}

/// How a decoded value is turned into the handles it contains.
fn handles_of_node(n: Node) -> Vec<Handle> {
    let mut v = vec![];
    node::take_handles(n, &mut v);
    v
}

enum Outcome16 {
    Decoded(Vec<Handle>),
    Error(#[allow(dead_code)] String),
    Dropped,
}

fn decode_as<T>(how: u8, rx: IpcReceiver<Node>, extract: fn(T) -> Vec<Handle>) -> Result<Outcome16, String>
where
    T: DeserializeOwned + Serialize + 'static,
{
    // returns Err(panic description) if the library panicked
    let r = std::panic::catch_unwind(std::panic::AssertUnwindSafe(|| -> Outcome16 {
        match how {
            0 => {
                let typed: IpcReceiver<T> = rx.to_opaque().to();
                match typed.recv() {
                    Ok(v) => Outcome16::Decoded(extract(v)),
                    Err(e) => Outcome16::Error(format!("{:?}", e)),
                }
            },
            1 => {
                let typed: IpcReceiver<T> = rx.to_opaque().to();
                match typed.try_recv() {
                    Ok(v) => Outcome16::Decoded(extract(v)),
                    Err(e) => Outcome16::Error(format!("{:?}", e)),
                }
            },
            _ => {
                let mut set = IpcReceiverSet::new().unwrap();
                set.add(rx).unwrap();
                let mut evs = set.select().unwrap();
                match evs.remove(0) {
                    IpcSelectionResult::MessageReceived(_, m) => {
                        if how == 2 {
                            match m.to::<T>() {
                                Ok(v) => Outcome16::Decoded(extract(v)),
                                Err(e) => Outcome16::Error(format!("{:?}", e)),
                            }
                        } else {
                            drop(m);
                            Outcome16::Dropped
                        }
                    },
                    IpcSelectionResult::ChannelClosed(_) => Outcome16::Error("closed".into()),
                }
            },
        }
    }));
    r.map_err(|_| format!("{:?}", crate::take_panics()))
}

impl Prop for C16 {
    type Case = Case;
    const ID: &'static str = "C16";

    fn setup(_ctx: &Ctx) {
        warm_up_router();
    }

    fn cases(ctx: &Ctx) -> u32 {
        ctx.param_u64("cases", ctx.pick(20000, 500000) as u64) as u32
    }

    fn strategy(_ctx: &Ctx) -> BoxedStrategy<Case> {
        let special = prop_oneof![
            Just(Special::Zero),
            Just(Special::One),
            Just(Special::Two),
            Just(Special::Count),
            Just(Special::CountMinus1),
            Just(Special::Max),
            Just(Special::MaxMinus1),
            any::<u64>().prop_map(Special::Val),
            (0u64..16).prop_map(Special::Val),
        ];
        let mutation = prop_oneof![
            2 => Just(Mutation::None),
            3 => (any::<u16>(), 0u8..8).prop_map(|(pos, bit)| Mutation::BitFlip { pos, bit }),
            2 => any::<u16>().prop_map(|keep| Mutation::Truncate { keep }),
            1 => (1u8..40, any::<u64>()).prop_map(|(n, seed)| Mutation::Extend { n, seed }),
            5 => (any::<u16>(), special).prop_map(|(field, val)| Mutation::SetU64 { field, val }),
            1 => (any::<u16>(), prop_oneof![0u32..32, any::<u32>()]).prop_map(|(field, val)| Mutation::SetU32 { field, val }),
        ];
        let gen = prop_oneof![
            1 => (prop_oneof![0u16..64, 0u16..4097], any::<u64>()).prop_map(|(len, seed)| Gen::Random { len, seed }),
            5 => (0u8..NTYPES, any::<u64>(), proptest::collection::vec(mutation, 0..3)).prop_map(|(base, seed, muts)| Gen::Valid { base, seed, muts }),
        ];
        let att = prop_oneof![Just(Att::Tx), Just(Att::Rx), Just(Att::Shm)];
        (0u8..NTYPES, gen, proptest::collection::vec(att, 0..=8), prop_oneof![4 => 0u8..3, 1 => 3u8..5], any::<bool>(), prop_oneof![4 => Just(false), 1 => Just(true)], prop_oneof![2 => Just(false), 1 => Just(true)])
            .prop_map(|(ty, gen, atts, via, same, fd0, keep_original)| {
                // mostly decode as the type the bytes were made for (mutations matter most there)
                let ty = match (&gen, same) {
                    (Gen::Valid { base, .. }, true) => *base,
                    _ => ty,
                };
                Case { ty, gen, atts, via, fd0, keep_original }
            })
            .boxed()
    }

    fn exec(_ctx: &Ctx, case: &Case) -> Result<Outcome, Failure> {
        let fds0 = fdsnap::fd_map();
        let c = case.clone();
        // fresh thread per case: the library's attachment side tables are per-thread
        let r = match std::thread::spawn(move || run_case(&c)).join() {
            Ok(r) => r,
            Err(_) => fail!("decode:panicked-outside-guard", "panic outside the guarded decode: {:?}", crate::take_panics()),
        };
        let fd0_end = if matches!(&r, Err(f) if f.poisoned) { Ok(()) } else { fdsnap::fd0::restore() };
        let out = r?;
        if let Err(what) = fd0_end {
            return Err(Failure::new("decode:descriptors-leaked", format!("descriptor number 0 was free when the message was received; after the case number 0 is still occupied by {}", what)).poisoned());
        }
        let fds1 = fdsnap::fd_map();
        if fds1.len() != fds0.len() {
            let extra: Vec<String> = fds1.iter().filter(|(k, _)| !fds0.contains_key(k)).map(|(k, v)| format!("{}->{}", k, v)).collect();
            fail!("decode:descriptors-leaked", "descriptor table {} -> {} entries after the case (new: {})", fds0.len(), fds1.len(), extra.join(" "));
        }
        Ok(out)
    }
}

pub fn run_case(case: &Case) -> Result<Outcome, Failure> {
    let chan = || ipc::channel::<Node>().map_err(|e| Failure::inconclusive(format!("channel: {}", e)));
    let (tx, rx) = chan()?;
    let raw_tx: IpcSender<Raw> = tx.to_opaque().to();
    // attachments: each sender attachment is the ONLY sender of its channel, each receiver
    // attachment the receiver of a fresh channel, regions have distinct contents
    let mut kept_rx: Vec<Option<IpcReceiver<Node>>> = vec![];
    let mut kept_tx: Vec<Option<IpcSender<Node>>> = vec![];
    let mut kept_orig: Vec<Option<IpcSender<Node>>> = vec![];
    let mut atts = vec![];
    for (i, a) in case.atts.iter().enumerate() {
        match a {
            Att::Tx => {
                let (t, r) = chan()?;
                kept_orig.push(if case.keep_original { Some(t.clone()) } else { None });
                atts.push(AttReal::Tx(t));
                kept_rx.push(Some(r));
                kept_tx.push(None);
            },
            Att::Rx => {
                let (t, r) = chan()?;
                kept_orig.push(None);
                atts.push(AttReal::Rx(r));
                kept_rx.push(None);
                kept_tx.push(Some(t));
            },
            Att::Shm => {
                kept_orig.push(None);
                atts.push(AttReal::Shm(IpcSharedMemory::from_bytes(&payload::stream(i as u64 + 1, 64 + i))));
                kept_rx.push(None);
                kept_tx.push(None);
            },
        }
    }
    let bytes = build_bytes(&case.gen, &case.atts);
    let nbytes = bytes.len();
    let sent = raw_tx.send(Raw { bytes, atts });
    ensure!(sent.is_ok(), "decode:raw-send-failed", "the harness could not put the raw message on the wire: {:?}", sent.map_err(|e| e.to_string()));
    drop(raw_tx);
    if case.fd0 {
        fdsnap::fd0::free();
    }

    let via = case.via % 5;
    let outcome = if via == 4 {
        // router: the callback drops the message undecoded
        struct Guard(crossbeam_channel::Sender<()>);
        impl Drop for Guard {
            fn drop(&mut self) {
                let _ = self.0.send(());
            }
        }
        let (done_tx, done_rx) = crossbeam_channel::unbounded::<()>();
        let (gone_tx, gone_rx) = crossbeam_channel::unbounded::<()>();
        let guard = Guard(gone_tx);
        ROUTER.add_route(
            rx.to_opaque(),
            Box::new(move |m| {
                let _ = &guard;
                drop(m);
                let _ = done_tx.send(());
            }),
        );
        match done_rx.recv_timeout(std::time::Duration::from_secs(sandbox::watchdog_secs())) {
            Ok(()) => {
                // the only sender of the routed channel is gone already: the router closes the
                // route's descriptor and then drops the handler (guard) - wait for that, so that the
                // descriptor baseline is judged on a settled state
                if gone_rx.recv_timeout(std::time::Duration::from_secs(sandbox::watchdog_secs())).is_err() {
                    return Err(Failure::inconclusive("the router did not drop the route of a closed channel in time"));
                }
                Ok(Outcome16::Dropped)
            },
            Err(_) => {
                let p = crate::take_panics();
                if p.is_empty() {
                    return Err(Failure::inconclusive("router callback was not invoked in time"));
                }
                Err(format!("{:?}", p))
            },
        }
    } else {
        let how = via;
        match case.ty % NTYPES {
            0 => decode_as::<u8>(how, rx, |_| vec![]),
            1 => decode_as::<u64>(how, rx, |_| vec![]),
            2 => decode_as::<String>(how, rx, |_| vec![]),
            3 => decode_as::<Vec<u32>>(how, rx, |_| vec![]),
            4 => decode_as::<Option<(u16, String)>>(how, rx, |_| vec![]),
            5 => decode_as::<E>(how, rx, |_| vec![]),
            6 => decode_as::<IpcSender<Node>>(how, rx, |t| vec![Handle::Tx(t)]),
            7 => decode_as::<IpcReceiver<Node>>(how, rx, |r| vec![Handle::Rx(r)]),
            8 => decode_as::<IpcSharedMemory>(how, rx, |m| vec![Handle::Shm(m)]),
            9 => decode_as::<(IpcSender<Node>, Vec<IpcSharedMemory>)>(how, rx, |(t, ms)| {
                let mut v = vec![Handle::Tx(t)];
                v.extend(ms.into_iter().map(Handle::Shm));
                v
            }),
            10 => decode_as::<Vec<IpcBytesSender>>(how, rx, |ts| ts.into_iter().map(Handle::BTx).collect()),
            11 => decode_as::<S>(how, rx, |s| {
                let mut v = vec![Handle::Tx(s.o.to())];
                if let Some(r) = s.r {
                    v.push(Handle::Rx(r.to()));
                }
                v
            }),
            _ => decode_as::<Node>(how, rx, handles_of_node),
        }
    };
    let outcome = match outcome {
        Ok(o) => o,
        Err(p) => fail!("decode:panicked", "receiving {} bytes with {:?} attached as type #{} (via {}) panicked: {}", nbytes, case.atts, case.ty % NTYPES, via, p),
    };

    // ---- identity: every handed-out endpoint is one of the attached ones, each at most once ------
    let mut decoded_ok = false;
    let mut n_handles = 0;
    let mut handed_tx = 0;
    let mut used = vec![false; case.atts.len()];
    let mut held: Vec<Handle> = vec![];
    if let Outcome16::Decoded(hs) = outcome {
        decoded_ok = true;
        n_handles = hs.len();
        for (hi, h) in hs.into_iter().enumerate() {
            match &h {
                Handle::Tx(t) => {
                    handed_tx += 1;
                    // a sender made from a receiver attachment (type confusion) is still "one of the
                    // attached": sending through it may fail; identity is judged on what arrives
                    let nonce = Node::U64(0xa000 + hi as u64);
                    let sent = std::panic::catch_unwind(std::panic::AssertUnwindSafe(|| t.send(nonce)));
                    match sent {
                        Err(_) => fail!("decode:bogus-endpoint", "using a handed-out sender panicked: {:?}", crate::take_panics()),
                        Ok(Err(_)) => {},
                        Ok(Ok(())) => {
                            let mut found = None;
                            for (i, r) in kept_rx.iter().enumerate() {
                                if let Some(r) = r {
                                    if let Ok(Node::U64(x)) = r.try_recv() {
                                        if x == 0xa000 + hi as u64 {
                                            found = Some(i);
                                        }
                                    }
                                }
                            }
                            // (a sender aliasing a *receiver* attachment cannot deliver anywhere we can see)
                            if let Some(i) = found {
                                ensure!(!used[i], "decode:attachment-handed-out-twice", "attachment {} was handed to the program twice", i);
                                used[i] = true;
                            }
                        },
                    }
                },
                Handle::BTx(t) => {
                    handed_tx += 1;
                    let body = payload::make(0, 0, hi as u32, 40, 1);
                    let sent = std::panic::catch_unwind(std::panic::AssertUnwindSafe(|| t.send(&body)));
                    if sent.is_err() {
                        fail!("decode:bogus-endpoint", "using a handed-out bytes sender panicked: {:?}", crate::take_panics());
                    }
                    if let Ok(Ok(())) = sent {
                        for (i, r) in kept_rx.iter().enumerate() {
                            if let Some(r) = r {
                                // a raw payload on a typed channel does not decode as Node: any result
                                // other than Empty shows where it went
                                match r.try_recv() {
                                    Err(TryRecvError::Empty) | Err(TryRecvError::IpcError(IpcError::Disconnected)) => {},
                                    _ => {
                                        ensure!(!used[i], "decode:attachment-handed-out-twice", "attachment {} was handed to the program twice", i);
                                        used[i] = true;
                                    },
                                }
                            }
                        }
                    }
                },
                Handle::Rx(r) => {
                    // probe: which kept sender reaches it?
                    let mut found = None;
                    for (i, t) in kept_tx.iter().enumerate() {
                        if let Some(t) = t {
                            if used[i] {
                                continue;
                            }
                            if t.send(Node::U64(0xb000 + i as u64)).is_ok() {
                                let got = std::panic::catch_unwind(std::panic::AssertUnwindSafe(|| r.try_recv()));
                                match got {
                                    Err(_) => fail!("decode:bogus-endpoint", "using a handed-out receiver panicked: {:?}", crate::take_panics()),
                                    Ok(Ok(Node::U64(x))) if x == 0xb000 + i as u64 => {
                                        found = Some(i);
                                        break;
                                    },
                                    _ => {},
                                }
                            }
                        }
                    }
                    if let Some(i) = found {
                        used[i] = true;
                    }
                },
                Handle::BRx(_) => {},
                Handle::Shm(m) => {
                    let mut found = None;
                    for (i, a) in case.atts.iter().enumerate() {
                        if *a == Att::Shm && m.len() == 64 + i && &m[..] == &payload::stream(i as u64 + 1, 64 + i)[..] {
                            found = Some(i);
                        }
                    }
                    if m.len() > 0 {
                        match found {
                            Some(i) => {
                                ensure!(!used[i], "decode:attachment-handed-out-twice", "region attachment {} was handed to the program twice", i);
                                used[i] = true;
                            },
                            None => fail!("decode:foreign-region", "a region of {} bytes was handed out that is none of the attached ones", m.len()),
                        }
                    }
                },
            }
            held.push(h);
        }
    }
    let _ = handed_tx;
    // ---- release: after dropping everything nothing may stay open ---------------------------------
    let drop_r = std::panic::catch_unwind(std::panic::AssertUnwindSafe(move || drop(held)));
    if drop_r.is_err() {
        fail!("decode:bogus-endpoint", "dropping the handed-out endpoints panicked (an endpoint that was not really attached): {:?}", crate::take_panics());
    }
    // ---- a kept second handle of an attached sender still works, whatever became of the copy ------
    for (i, o) in kept_orig.iter_mut().enumerate() {
        if let (Some(orig), Some(r)) = (o.take(), kept_rx[i].as_ref()) {
            let nonce = 0xc000 + i as u64;
            let sent = orig.send(Node::U64(nonce));
            ensure!(sent.is_ok(), "decode:live-channel-broken", "sender attachment {} was a clone; the program's own handle of that channel can no longer send after the attached copy was {} (type #{}, via {}): {:?}", i, if decoded_ok { "decoded" } else { "refused or dropped undecoded" }, case.ty % NTYPES, via, sent.map_err(|e| e.to_string()));
            let mut arrived = false;
            loop {
                match r.try_recv() {
                    Ok(Node::U64(x)) if x == nonce => {
                        arrived = true;
                        break;
                    },
                    Ok(_) => continue,
                    Err(TryRecvError::Empty) => break,
                    Err(TryRecvError::IpcError(IpcError::Disconnected)) => break,
                    Err(_) => continue,
                }
            }
            ensure!(arrived, "decode:live-channel-broken", "sender attachment {} was a clone; a message sent through the program's own handle of that channel after the attached copy was {} did not arrive (type #{}, via {})", i, if decoded_ok { "decoded" } else { "refused or dropped undecoded" }, case.ty % NTYPES, via);
            drop(orig);
        }
    }
    if via == 4 {
        // the router thread drops the message asynchronously after the callback; give it a moment
        for _ in 0..2000 {
            let all = kept_rx.iter().flatten().all(|r| !matches!(r.try_recv(), Err(TryRecvError::Empty)));
            if all {
                break;
            }
            std::thread::sleep(std::time::Duration::from_micros(500));
        }
    }
    for (i, r) in kept_rx.iter().enumerate() {
        if let Some(r) = r {
            // drain probes, then the channel must be disconnected
            loop {
                match r.try_recv() {
                    Ok(_) => continue,
                    Err(TryRecvError::IpcError(IpcError::Disconnected)) => break,
                    Err(TryRecvError::Empty) => fail!("decode:attachment-retained", "sender attachment {} is still open somewhere after the message and everything decoded from it were dropped (type #{}, via {}, decoded: {})", i, case.ty % NTYPES, via, decoded_ok),
                    Err(_) => continue, // undecodable probe payloads (bytes sender aliasing)
                }
            }
        }
    }
    for (i, t) in kept_tx.iter().enumerate() {
        if let Some(t) = t {
            ensure!(t.send(Node::Unit).is_err(), "decode:attachment-retained", "receiver attachment {} is still open somewhere after everything was dropped (type #{}, via {}, decoded: {})", i, case.ty % NTYPES, via, decoded_ok);
        }
    }
    let structured = matches!(case.gen, Gen::Valid { .. });
    let nontrivial = n_handles > 0 || structured || (via >= 3 && !case.atts.is_empty());
    let class = format!(
        "{}/{}/{}{}",
        match &case.gen {
            Gen::Raw(_) => "raw",
            Gen::Random { .. } => "random",
            Gen::Valid { muts, .. } if muts.iter().all(|m| matches!(m, Mutation::None)) => "valid",
            Gen::Valid { .. } => "mutated",
        },
        ["recv", "try_recv", "set+to", "set+drop-undecoded", "router+drop-undecoded"][via as usize],
        if via >= 3 { "dropped" } else if decoded_ok { "Ok" } else { "Err" },
        if n_handles > 0 { "+endpoints" } else { "" }
    );
    Ok(Outcome::new(nontrivial, class).with("attachments", case.atts.len() as u64).with("endpoints_handed_out", n_handles as u64))
}

/// Start the global router and wait until its thread is serving (its descriptors exist), so that
/// descriptor baselines taken afterwards are stable.
pub fn warm_up_router() {
    struct Guard(crossbeam_channel::Sender<()>);
    impl Drop for Guard {
        fn drop(&mut self) {
            let _ = self.0.send(());
        }
    }
    let (tx, rx) = ipc::channel::<Node>().unwrap();
    let (done_tx, done_rx) = crossbeam_channel::unbounded::<()>();
    let (gone_tx, gone_rx) = crossbeam_channel::unbounded::<()>();
    let guard = Guard(gone_tx);
    ROUTER.add_route(
        rx.to_opaque(),
        Box::new(move |_m| {
            let _ = &guard;
            let _ = done_tx.send(());
        }),
    );
    tx.send(Node::Unit).unwrap();
    let _ = done_rx.recv_timeout(std::time::Duration::from_secs(10));
    drop(tx);
    // the router closes the route's descriptor before it drops the handler (and with it the guard)
    let _ = gone_rx.recv_timeout(std::time::Duration::from_secs(10));
}
