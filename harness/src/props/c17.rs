//! C17 - stopping a router, by shutdown or proxy drop, is clean and complete.
//!
//! A fresh `RouterProxy` gets 0..16 live routes (callback and crossbeam kinds) with sender threads
//! still sending; it is stopped by `shutdown()` from 1..4 threads concurrently with `add_route` from
//! 0..4 others, or by dropping the proxy; afterwards: further sends on the old routes, `add_route`
//! again, `shutdown` again.  A process-wide panic hook records every panic.
//! Oracle (logical-clock stamps): no callback entry is stamped after the stamp taken when
//! `shutdown` returned; at that moment every registered callback's drop guard has fired and
//! crossbeam consumers subsequently observe disconnection; routes offered after shutdown are
//! dropped without ever being invoked; for a proxy drop the same holds eventually (hang rule) and
//! no invocation follows the last guard; zero panics; every call returns.

use crate::engine::{Ctx, Failure, Outcome, Prop};
use crate::interpose::stamp;
use crate::node::Node;
use crate::sandbox;
use crate::{ensure, fail};
use ipc_channel::ipc::{self, IpcSender};
use ipc_channel::router::RouterProxy;
use proptest::prelude::*;
use serde::{Deserialize, Serialize};
use std::sync::atomic::{AtomicBool, AtomicU64, Ordering::SeqCst};
use std::sync::{Arc, Barrier, Mutex};
use std::time::Duration;

pub struct C17;

#[derive(Clone, Debug, Serialize, Deserialize)]
pub struct RouteK {
    /// 0 callback, 1 crossbeam sender, 2 new crossbeam receiver
    pub kind: u8,
    pub msgs_before: u8,
    pub keep_sending: bool,
}

#[derive(Clone, Debug, Serialize, Deserialize)]
pub struct Case {
    pub routes: Vec<RouteK>,
    /// 0 = drop the proxy, 1..=4 = that many threads call shutdown()
    pub shutdown_threads: u8,
    pub adders: u8,
    pub send_more: bool,
    pub add_again: bool,
    pub shutdown_again: bool,
    pub jitter: u16,
    /// > 0: the first callback invocation of the case takes this many milliseconds, so that the
    /// router is busy inside a callback (with further messages queued behind it) when it is stopped
    #[serde(default)]
    pub slow_ms: u16,
}

/// Milliseconds the next callback invocation sleeps (consumed by the first one that sees it).
static SLOW_MS: AtomicU64 = AtomicU64::new(0);

struct Guard {
    fired: Arc<AtomicU64>,
    tx: crossbeam_channel::Sender<()>,
}
impl Drop for Guard {
    fn drop(&mut self) {
        self.fired.store(stamp(), SeqCst);
        let _ = self.tx.send(());
    }
}

struct Cb {
    invoked: Arc<Mutex<Vec<u64>>>,
    fired: Arc<AtomicU64>,
    done: crossbeam_channel::Receiver<()>,
}

fn callback_route(proxy: &RouterProxy) -> Result<(IpcSender<Node>, Cb), Failure> {
    let (tx, rx) = ipc::channel::<Node>().map_err(|e| Failure::inconclusive(e.to_string()))?;
    let invoked = Arc::new(Mutex::new(vec![]));
    let fired = Arc::new(AtomicU64::new(0));
    let (dtx, drx) = crossbeam_channel::unbounded();
    let guard = Guard { fired: fired.clone(), tx: dtx };
    let inv = invoked.clone();
    proxy.add_route(
        rx.to_opaque(),
        Box::new(move |_m| {
            let _ = &guard;
            inv.lock().unwrap().push(stamp());
            let ms = SLOW_MS.swap(0, SeqCst);
            if ms > 0 {
                std::thread::sleep(Duration::from_millis(ms));
            }
        }),
    );
    Ok((tx, Cb { invoked, fired, done: drx }))
}

impl Prop for C17 {
    type Case = Case;
    const ID: &'static str = "C17";
    const SCHEDULE_DEPENDENT: bool = true;

    fn cases(ctx: &Ctx) -> u32 {
        ctx.param_u64("cases", ctx.pick(600, 12000) as u64) as u32
    }

    fn strategy(_ctx: &Ctx) -> BoxedStrategy<Case> {
        let route = (0u8..3, 0u8..6, any::<bool>()).prop_map(|(kind, msgs_before, keep_sending)| RouteK { kind, msgs_before, keep_sending });
        (proptest::collection::vec(route, 0..=16), 0u8..=4, 0u8..=4, any::<bool>(), any::<bool>(), any::<bool>(), 0u16..3000, prop_oneof![30 => Just(0u16), 1 => 600u16..900])
            .prop_map(|(routes, shutdown_threads, adders, send_more, add_again, shutdown_again, jitter, slow_ms)| Case { routes, shutdown_threads, adders, send_more, add_again, shutdown_again, jitter, slow_ms })
            .boxed()
    }

    fn exec(_ctx: &Ctx, case: &Case) -> Result<Outcome, Failure> {
        let _ = crate::take_panics();
        let r = run(case);
        let p = crate::take_panics();
        match r {
            Ok(o) => {
                ensure!(p.is_empty(), "stop:panicked", "stopping the router ({}) panicked a thread: {:?}", if case.shutdown_threads == 0 { "proxy drop" } else { "shutdown" }, p);
                Ok(o)
            },
            Err(f) => Err(f),
        }
    }
}

/// A router that never had a route is shut down (from 1..4 threads); routes offered afterwards
/// are dropped without ever being invoked, and further shutdown calls return.
fn fresh_router_shutdown(case: &Case) -> Result<Outcome, Failure> {
    let proxy = Arc::new(RouterProxy::new());
    let hs: Vec<_> = (0..case.shutdown_threads.max(1))
        .map(|_| {
            let p = proxy.clone();
            std::thread::spawn(move || p.shutdown())
        })
        .collect();
    match sandbox::watched(move || hs.into_iter().map(|h| h.join().is_ok()).collect::<Vec<_>>()) {
        Ok(oks) => ensure!(oks.iter().all(|x| *x), "stop:panicked", "shutdown() of a router without routes panicked: {:?}", crate::take_panics()),
        Err(h) => return Err(sandbox::hang_failure("stop:deadlock", "shutdown() of a router that never had a route did not return", h)),
    }
    let mut late = vec![];
    for _ in 0..1 + (case.jitter % 3) {
        let (t, cb) = callback_route(&proxy)?;
        let _ = t.send(Node::U32(3));
        ensure!(cb.fired.load(SeqCst) != 0, "stop:route-after-shutdown-kept", "a route offered after shutdown() of a router that had no routes before was not dropped by add_route");
        late.push((t, cb));
    }
    let p2 = proxy.clone();
    if let Err(h) = sandbox::watched(move || p2.shutdown()) {
        return Err(sandbox::hang_failure("stop:deadlock", "a second shutdown() call never returned", h));
    }
    std::thread::sleep(Duration::from_millis(2));
    for (_, cb) in &late {
        ensure!(cb.invoked.lock().unwrap().is_empty(), "stop:route-after-shutdown-invoked", "a route offered after shutdown() was invoked");
    }
    Ok(Outcome::new(true, format!("shutdown x{} of a router without routes, then add_route", case.shutdown_threads.max(1))).with("routes", 0))
}

fn run(case: &Case) -> Result<Outcome, Failure> {
    let wd = Duration::from_secs(sandbox::watchdog_secs());
    SLOW_MS.store(case.slow_ms as u64, SeqCst);
    if case.routes.is_empty() && case.shutdown_threads > 0 && case.adders == 0 && case.jitter % 2 == 0 {
        return fresh_router_shutdown(case);
    }
    let proxy = Arc::new(RouterProxy::new());
    let mut proxy_kept: Option<Arc<RouterProxy>> = None;
    // sentinel callback route: always present, so that there is always a handler whose drop marks
    // the moment the router let go of its routes
    let (sent_tx, sentinel) = callback_route(&proxy)?;
    let mut cbs: Vec<Cb> = vec![];
    let mut consumers: Vec<crossbeam_channel::Receiver<Node>> = vec![];
    let mut senders: Vec<(IpcSender<Node>, bool)> = vec![(sent_tx, false)];
    for r in &case.routes {
        match r.kind % 3 {
            0 => {
                let (tx, cb) = callback_route(&proxy)?;
                cbs.push(cb);
                senders.push((tx, r.keep_sending));
            },
            1 => {
                let (tx, rx) = ipc::channel::<Node>().map_err(|e| Failure::inconclusive(e.to_string()))?;
                let (ctx_, crx) = crossbeam_channel::unbounded();
                proxy.route_ipc_receiver_to_crossbeam_sender(rx, ctx_);
                consumers.push(crx);
                senders.push((tx, r.keep_sending));
            },
            _ => {
                let (tx, rx) = ipc::channel::<Node>().map_err(|e| Failure::inconclusive(e.to_string()))?;
                consumers.push(proxy.route_ipc_receiver_to_new_crossbeam_receiver(rx));
                senders.push((tx, r.keep_sending));
            },
        }
        let (tx, _) = senders.last().unwrap();
        for k in 0..r.msgs_before {
            tx.send(Node::U32(k as u32)).map_err(|e| Failure::new("stop:send-before-failed", e.to_string()))?;
        }
    }
    // traffic in flight: one thread keeps sending on the routes that ask for it until told to stop
    let stop_traffic = Arc::new(AtomicBool::new(false));
    let traffic_senders: Vec<IpcSender<Node>> = senders.iter().filter(|(_, k)| *k).map(|(t, _)| t.clone()).collect();
    let in_flight = !traffic_senders.is_empty();
    let st = stop_traffic.clone();
    let jitter = case.jitter;
    let traffic = std::thread::spawn(move || {
        let mut n = 0u32;
        while !st.load(SeqCst) {
            for t in &traffic_senders {
                let _ = t.send(Node::U32(n)); // fails once the router is gone: fine
                n += 1;
            }
            sandbox::spin(jitter as u32);
            if n > 200_000 {
                break;
            }
        }
    });

    let registered_before_stop = cbs.len();
    // ---- stop -----------------------------------------------------------------------------------------
    let stop_began = stamp();
    let mut stopped_at = 0u64;
    let mut adder_cbs: Vec<Cb> = vec![];
    if case.shutdown_threads == 0 {
        // proxy drop
        let p = match Arc::try_unwrap(proxy) {
            Ok(p) => p,
            Err(_) => return Err(Failure::inconclusive("proxy still shared")),
        };
        drop(p);
    } else {
        let nthreads = case.shutdown_threads as usize + case.adders as usize;
        let barrier = Arc::new(Barrier::new(nthreads));
        let mut hs = vec![];
        for _ in 0..case.shutdown_threads {
            let (p, b) = (proxy.clone(), barrier.clone());
            hs.push(std::thread::spawn(move || -> Result<Option<(IpcSender<Node>, Cb)>, Failure> {
                b.wait();
                p.shutdown();
                RETURNED.fetch_min(stamp(), SeqCst);
                Ok(None)
            }));
        }
        for _ in 0..case.adders {
            let (p, b) = (proxy.clone(), barrier.clone());
            hs.push(std::thread::spawn(move || -> Result<Option<(IpcSender<Node>, Cb)>, Failure> {
                b.wait();
                let (tx, cb) = callback_route(&p)?;
                let _ = tx.send(Node::U32(7));
                Ok(Some((tx, cb)))
            }));
        }
        RETURNED.store(u64::MAX, SeqCst);
        let joined = sandbox::watched(move || hs.into_iter().map(|h| h.join()).collect::<Vec<_>>());
        let joined = match joined {
            Ok(j) => j,
            Err(h) => return Err(sandbox::hang_failure("stop:deadlock", &format!("{} thread(s) in shutdown() racing with {} thread(s) in add_route() never all returned", case.shutdown_threads, case.adders), h)),
        };
        for j in joined {
            match j {
                Ok(Ok(Some((tx, cb)))) => {
                    senders.push((tx, false));
                    adder_cbs.push(cb);
                },
                Ok(Ok(None)) => {},
                Ok(Err(f)) => return Err(f),
                Err(_) => fail!("stop:panicked", "a thread calling shutdown()/add_route() panicked: {:?}", crate::take_panics()),
            }
        }
        stopped_at = RETURNED.load(SeqCst);
        proxy_kept = Some(proxy);
    }

    // ---- obligations at / after the stop ---------------------------------------------------------------
    if case.shutdown_threads > 0 {
        // when shutdown returned every registered callback had been dropped
        for (i, cb) in std::iter::once(&sentinel).chain(cbs.iter()).enumerate() {
            let f = cb.fired.load(SeqCst);
            ensure!(f != 0 && f < stopped_at, "stop:handler-alive-after-shutdown-returned", "shutdown() returned at stamp {} but the callback of route {} ({} routes registered before the stop began at {}) had not been dropped (drop stamp {})", stopped_at, i, registered_before_stop + 1, stop_began, f);
        }
    } else {
        // eventually (hang rule): all guards fire
        for (i, cb) in std::iter::once(&sentinel).chain(cbs.iter()).enumerate() {
            if cb.done.recv_timeout(wd).is_err() {
                fail!("stop:handler-never-dropped-after-proxy-drop", "the proxy was dropped (stamp {}) but the callback of route {} was never dropped: the router did not stop", stop_began, i);
            }
        }
        stopped_at = std::iter::once(&sentinel).chain(cbs.iter()).map(|c| c.fired.load(SeqCst)).max().unwrap_or(0);
    }
    // routes offered concurrently with / after the stop: dropped, either way never invoked after it
    for (i, cb) in adder_cbs.iter().enumerate() {
        if cb.done.recv_timeout(wd).is_err() {
            fail!("stop:late-route-not-dropped", "a route offered concurrently with shutdown() (adder {}) was neither served-and-dropped nor dropped", i);
        }
    }
    // further activity
    if case.send_more {
        for (t, _) in &senders {
            let _ = t.send(Node::U32(0xdead));
        }
    }
    let mut late: Vec<Cb> = vec![];
    if case.add_again && case.shutdown_threads > 0 {
        let p = RouterProxy::new(); // a different router must be unaffected
        let (t, cb) = callback_route(&p)?;
        t.send(Node::U32(1)).map_err(|e| Failure::new("stop:other-router-affected", e.to_string()))?;
        drop(t);
        if cb.done.recv_timeout(wd).is_err() {
            fail!("stop:other-router-affected", "a second, independent router did not serve and release its route");
        }
        ensure!(cb.invoked.lock().unwrap().len() == 1, "stop:other-router-affected", "independent router delivered {} messages instead of 1", cb.invoked.lock().unwrap().len());
        p.shutdown();
    }
    if let Some(p) = &proxy_kept {
        if case.add_again {
            // on the stopped router: the route must be dropped without ever being invoked
            let (t, cb) = callback_route(p)?;
            let _ = t.send(Node::U32(3));
            ensure!(cb.fired.load(SeqCst) != 0, "stop:route-after-shutdown-kept", "a route offered after shutdown() returned was not dropped by add_route");
            senders.push((t, false));
            late.push(cb);
        }
        if case.shutdown_again {
            let p2 = p.clone();
            match sandbox::watched(move || p2.shutdown()) {
                Ok(()) => {},
                Err(h) => return Err(sandbox::hang_failure("stop:deadlock", "a second shutdown() call never returned", h)),
            }
        }
    }
    stop_traffic.store(true, SeqCst);
    match sandbox::watched(move || traffic.join()) {
        Ok(_) => {},
        Err(h) => return Err(sandbox::hang_failure("stop:send-hangs", "a send on a route of a stopped router never returned", h)),
    }
    // settle: give stray invocations a chance to show up (they are violations whenever they come)
    std::thread::sleep(Duration::from_millis(if case.send_more || in_flight { 3 } else { 0 }));
    let after = stamp();
    for cb in &late {
        ensure!(cb.invoked.lock().unwrap().is_empty(), "stop:route-after-shutdown-invoked", "a route offered after shutdown() was invoked");
    }
    for (i, cb) in std::iter::once(&sentinel).chain(cbs.iter()).chain(adder_cbs.iter()).enumerate() {
        let inv = cb.invoked.lock().unwrap().clone();
        if let Some(x) = inv.iter().find(|x| **x > stopped_at) {
            fail!("stop:callback-invoked-after-stop", "callback of route {} was invoked at stamp {} after the router had stopped (stamp {}; now {})", i, x, stopped_at, after);
        }
    }
    for crx in &consumers {
        // crossbeam consumers observe disconnection (after draining what was forwarded)
        let t0 = std::time::Instant::now();
        loop {
            match crx.recv_timeout(Duration::from_millis(100)) {
                Ok(_) => {},
                Err(crossbeam_channel::RecvTimeoutError::Disconnected) => break,
                Err(crossbeam_channel::RecvTimeoutError::Timeout) => {
                    if t0.elapsed() > wd {
                        fail!("stop:crossbeam-consumer-not-disconnected", "a crossbeam consumer of a stopped router never observes disconnection: the forwarding closure is still alive");
                    }
                },
            }
        }
    }
    // a stopped router has released the receivers of its routes: sends on the old routes start to
    // fail (the router thread lets go of them right after it acknowledged, so "eventually")
    let t0 = std::time::Instant::now();
    for (i, (t, _)) in senders.iter().enumerate() {
        loop {
            if t.send(Node::U32(0xdead_2)).is_err() {
                break;
            }
            if t0.elapsed() > wd {
                fail!("stop:routes-still-open", "the router has stopped (every callback is gone) but the receiver of route {} is still open somewhere: sends on it keep succeeding {:?} later", i, t0.elapsed());
            }
            std::thread::sleep(Duration::from_micros(200));
        }
    }
    let nt = (!case.routes.is_empty() && in_flight) || (case.shutdown_threads as usize + case.adders as usize) >= 2;
    let class = format!(
        "{}{}{}{}",
        if case.shutdown_threads == 0 { "proxy-drop".to_string() } else { format!("shutdown x{}", case.shutdown_threads) },
        if case.adders > 0 && case.shutdown_threads > 0 { format!("+{}adders", case.adders) } else { String::new() },
        if in_flight { "+traffic-in-flight" } else { "" },
        if case.routes.is_empty() { "+no-routes" } else { "" }
    ) + if case.slow_ms > 0 { "+slow-callback" } else { "" };
    Ok(Outcome::new(nt, class).with("routes", case.routes.len() as u64))
}

static RETURNED: AtomicU64 = AtomicU64::new(u64::MAX);

