//! C18 - unsafe transport code stays inside its buffers for every message shape.
//!
//! The whole harness (and the crate) is built with AddressSanitizer; the message shapes of C01
//! (boundary lengths, several reported buffer sizes), C04 (0..63 mixed attachments), C05 (region
//! lengths incl. page straddles), C13 (ENOBUFS masks -> retry-shrunk fragments) and C15 (around
//! capacity) are replayed in this build together with truncated transfers (sender killed
//! mid-message) and the platform-level zero-length region API.  A `#[global_allocator]` wrapper
//! fills every fresh allocation with 0xCD and payloads avoid that byte, so "length set but bytes
//! never written by the transport" becomes a content mismatch.
//! Oracle: no AddressSanitizer report / abort / `unsafe precondition violated` (the orchestrator
//! turns a dead worker into a violation with the case in flight); all the C01/C04/C05/C13/C15
//! oracles continue to hold.

use crate::engine::{Ctx, Failure, Outcome, Prop};
use crate::props::{c01, c04, c05, c13, c15};
use crate::sandbox::{self, ChildEnd};
use crate::fail;
use ipc_channel::platform::{self, OsIpcSharedMemory};
use proptest::prelude::*;
use serde::{Deserialize, Serialize};
use std::time::Duration;

pub struct C18;

#[derive(Clone, Debug, Serialize, Deserialize)]
pub enum Case {
    Bytes(c01::Case),
    Trees(c04::Case),
    Regions(c05::Case),
    Enobufs(c13::Case),
    Attach(c15::Case),
    /// platform-level zero-/odd-length regions: 0 from_byte(_,0), 1 from_bytes(&[]), 2 clone+deref,
    /// 3 send+receive, 4 odd length
    ZeroRegion { variant: u8, byte: u8 },
    /// sender child killed before its k-th transmission of a multi-packet message with attachments
    Truncated { packets: u8, k: u8, attach: bool },
}

impl Prop for C18 {
    type Case = Case;
    const ID: &'static str = "C18";

    fn setup(ctx: &Ctx) {
        c01::measure_capacities_for(ctx);
        let _ = crate::interpose::shared();
    }

    fn cases(ctx: &Ctx) -> u32 {
        ctx.param_u64("cases", ctx.pick(3000, 60000) as u64) as u32
    }

    fn strategy(ctx: &Ctx) -> BoxedStrategy<Case> {
        prop_oneof![
            4 => c01::C01::strategy(ctx).prop_map(Case::Bytes),
            3 => c04::C04::strategy(ctx).prop_map(Case::Trees),
            2 => c05::C05::strategy(ctx).prop_map(Case::Regions),
            2 => c13::C13::strategy(ctx).prop_map(Case::Enobufs),
            2 => c15::C15::strategy(ctx).prop_map(|mut c| {
                c.count %= 70;
                Case::Attach(c)
            }),
            1 => (0u8..5, any::<u8>()).prop_map(|(variant, byte)| Case::ZeroRegion { variant, byte }),
            1 => (2u8..=5, 0u8..8, any::<bool>()).prop_map(|(packets, k, attach)| Case::Truncated { packets, k, attach }),
        ]
        .boxed()
    }

    fn enumerated(ctx: &Ctx) -> Vec<Case> {
        let mut v: Vec<Case> = vec![];
        v.extend(c01::C01::enumerated(ctx).into_iter().map(Case::Bytes));
        v.extend(c05::C05::enumerated(ctx).into_iter().map(Case::Regions));
        // a slice of the ENOBUFS enumeration: masks with 1..2 bits among the first 8 attempts
        for c in c13::C13::enumerated(ctx) {
            if c.mask < 256 && c.mask.count_ones() <= 2 {
                v.push(Case::Enobufs(c));
            }
        }
        for c in c15::C15::enumerated(ctx) {
            if c.count <= 70 && (c.count >= 56 || c.count % 9 == 0) {
                v.push(Case::Attach(c));
            }
        }
        for variant in 0..5u8 {
            v.push(Case::ZeroRegion { variant, byte: 7 });
        }
        for packets in 2..=4u8 {
            for k in 0..=packets + 1 {
                v.push(Case::Truncated { packets, k, attach: k % 2 == 0 });
            }
        }
        v
    }

    fn exec(ctx: &Ctx, case: &Case) -> Result<Outcome, Failure> {
        let tag = |o: Outcome, p: &str, nt: bool| -> Outcome {
            let mut o2 = Outcome::new(o.nontrivial || nt, format!("{}:{}", p, o.class));
            o2.counters = o.counters;
            o2
        };
        match case {
            Case::Bytes(c) => c01::C01::exec(ctx, c).map(|o| tag(o, "c01", false)),
            Case::Trees(c) => c04::C04::exec(ctx, c).map(|o| {
                let big = o.class.contains("32..63");
                tag(o, "c04", big)
            }),
            Case::Regions(c) => c05::C05::exec(ctx, c).map(|o| tag(o, "c05", false)),
            Case::Enobufs(c) => c13::C13::exec(ctx, c).map(|o| tag(o, "c13", false)),
            Case::Attach(c) => c15::C15::exec(ctx, c).map(|o| tag(o, "c15", c.count >= 32)),
            Case::ZeroRegion { variant, byte } => zero_region(*variant, *byte),
            Case::Truncated { packets, k, attach } => truncated(*packets, *k, *attach),
        }
    }
}

/// Everything that may abort runs in a forked child; the parent classifies how it ended.
fn zero_region(variant: u8, byte: u8) -> Result<Outcome, Failure> {
    let child = sandbox::fork_child(|_w| {
        let len = if variant == 4 { 4097 } else { 0 };
        let r = match variant {
            1 => OsIpcSharedMemory::from_bytes(&[]),
            4 => OsIpcSharedMemory::from_bytes(&vec![byte; len]),
            _ => OsIpcSharedMemory::from_byte(byte, len),
        };
        if r.len() != len {
            return 10;
        }
        if r.iter().any(|b| *b != byte) {
            return 11;
        }
        let c = r.clone();
        if c.len() != len || &c[..] != &r[..] {
            return 12;
        }
        if variant >= 3 {
            let (tx, rx) = platform::channel().unwrap();
            if tx.send(b"hello", vec![], vec![c]).is_err() {
                return 13;
            }
            match rx.recv() {
                Ok((d, _, regs)) => {
                    if d != b"hello" || regs.len() != 1 || regs[0].len() != len || regs[0].iter().any(|b| *b != byte) {
                        return 14;
                    }
                },
                Err(_) => return 15,
            }
        }
        drop(r);
        0
    });
    let (end, _) = child.wait(Duration::from_secs(sandbox::watchdog_secs()));
    match end {
        ChildEnd::Exited(0) => Ok(Outcome::new(true, format!("platform-region/variant{}", variant))),
        ChildEnd::Exited(c) if (10..=15).contains(&c) => fail!("zero-region:wrong-contents", "platform-level region (variant {}): check {} failed", variant, c),
        ChildEnd::TimedOut => Err(Failure::inconclusive("zero-length region child timed out")),
        other => fail!("zero-region:unsafe", "creating/reading a platform-level {} region (variant {}) took the process down: {:?} (null-pointer slice / sanitizer report)", if variant == 4 { "odd-length" } else { "zero-length" }, variant, other),
    }
}

fn truncated(packets: u8, k: u8, attach: bool) -> Result<Outcome, Failure> {
    use crate::interpose as ip;
    use crate::node::Node;
    use ipc_channel::ipc;
    let (f1, f) = c01::capacities();
    if f1 > 16384 {
        // with real (large) packets an unread multi-packet message fills the socket and the
        // follow-up send would block: truncated transfers are exercised with 4 KiB packets only
        return Ok(Outcome::new(false, "truncated/skipped-large-packets"));
    }
    let (tx, rx) = ipc::channel::<Node>().map_err(|e| Failure::inconclusive(e.to_string()))?;
    let (ptx, _prx) = ipc::channel::<Node>().map_err(|e| Failure::inconclusive(e.to_string()))?;
    let len = (f1 + (packets.max(2) as usize - 2) * f + f / 2).min(500_000);
    let child_tx = tx.clone();
    let child = sandbox::fork_child(move |_w| {
        let body = crate::payload::make(0, 0, 0, len, 5);
        let t = Node::Tagged { chan: 0, sender: 0, seq: 0, body };
        let m = if attach { Node::List(vec![t, Node::Tx(ptx.clone()), Node::Shm(ipc::IpcSharedMemory::from_byte(3, 5000))]) } else { t };
        // only sendmsg/send are interposed in this build: k counts transmissions
        ip::arm(ip::gettid(), 0, k as i64);
        let _ = child_tx.send(m);
        0
    });
    let (end, _) = child.wait(Duration::from_secs(sandbox::watchdog_secs()));
    if matches!(end, ChildEnd::TimedOut) {
        return Err(Failure::inconclusive("truncating sender timed out"));
    }
    let died = matches!(end, ChildEnd::Signaled(_));
    // keep our sender alive while receiving: no end-of-file can race with the read (see interpose.rs)
    let follow = tx.send(Node::U32(0xf0110));
    let got = sandbox::watched(move || {
        let mut out = vec![];
        for _ in 0..3 {
            let r = rx.try_recv();
            let fin = matches!(&r, Ok(Node::U32(0xf0110)));
            out.push(r.map(|n| crate::node::rendered(&n)).map_err(|e| format!("{:?}", e)));
            if fin {
                break;
            }
        }
        out
    });
    drop(tx);
    let got = match got {
        Ok(g) => g,
        Err(h) => return Err(sandbox::hang_failure("truncated:receiver-hangs", "receiving after a sender died mid-message", h)),
    };
    if follow.is_err() {
        fail!("truncated:follow-up-send-failed", "{:?}", follow.map_err(|e| e.to_string()));
    }
    if !got.iter().any(|r| matches!(r, Ok(s) if s == &crate::node::rendered(&Node::U32(0xf0110)))) {
        fail!("truncated:follow-up-lost", "after a truncated transfer the next message did not arrive: {:?}", got);
    }
    Ok(Outcome::new(died, format!("truncated/{}pkt{}/{}", packets, if attach { "+att" } else { "" }, if died { "died" } else { "completed" })))
}
