//! C19 - all transports give the same answers to the same single-process program, and that
//! answer is the one an ideal unbounded FIFO channel world gives.
//!
//! Each build executes the same generated programs (same seeds on every build) in lock-step with
//! the world model (`world.rs`), which checks every observable result at once; the normalised trace
//! is hashed and the orchestrator additionally requires trace(os) = trace(memfd) = trace(inproc)
//! per program.

use crate::engine::{Ctx, Failure, Outcome, Prop};
use crate::payload;
use crate::props::c01;
use crate::world::{self, Op, World};
use proptest::prelude::*;
use serde::{Deserialize, Serialize};

pub struct C19;

#[derive(Clone, Debug, Serialize, Deserialize)]
pub struct Case {
    pub ops: Vec<Op>,
}

pub fn run_program(ops: &[Op], max_chans: usize) -> Result<World, Failure> {
    let (f1, f) = c01::capacities();
    let mut w = World::new(f1, f).with_max_chans(max_chans);
    for op in ops {
        w.step(op)?;
    }
    w.release_all()?;
    w.probe_all()?;
    Ok(w)
}

impl Prop for C19 {
    type Case = Case;
    const ID: &'static str = "C19";
    const SAME_CASES_ACROSS_BUILDS: bool = true;

    fn setup(ctx: &Ctx) {
        c01::measure_capacities_for(ctx);
    }

    fn cases(ctx: &Ctx) -> u32 {
        ctx.param_u64("cases", ctx.pick(1500, 30000) as u64) as u32
    }

    fn strategy(_ctx: &Ctx) -> BoxedStrategy<Case> {
        //            create clone droptx droprx send recv region set server
        world::program_strategy([3, 2, 3, 2, 8, 7, 1, 3, 2, 0], 2, 60).prop_map(|ops| Case { ops }).boxed()
    }

    fn exec(_ctx: &Ctx, case: &Case) -> Result<Outcome, Failure> {
        let w = run_program(&case.ops, 6)?;
        let s = &w.stats;
        let nontrivial = s.channels >= 3 && s.endpoint_transfers >= 1 && s.disconnects_seen >= 1;
        let class = format!(
            "{}{}{}{}",
            if nontrivial { "3ch+transfer+disconnect" } else { "simple" },
            if s.selects > 0 { "+set" } else { "" },
            if s.accepts > 0 { "+server" } else { "" },
            if s.multi_packet > 0 { "+multipacket" } else { "" }
        );
        if std::env::var("IPCV_TRACE").is_ok() {
            eprintln!("{}", w.trace.join("\n"));
        }
        let th = payload::fnv64(w.trace.join("\n").as_bytes());
        Ok(Outcome::new(nontrivial, class)
            .trace(th)
            .with("ops", s.ops as u64)
            .with("skipped_ops", s.skipped as u64)
            .with("sends_ok", s.sends_ok as u64)
            .with("sends_err", s.sends_err as u64)
            .with("endpoint_transfers", s.endpoint_transfers as u64)
            .with("disconnects_seen", s.disconnects_seen as u64)
            .with("empties_seen", s.empties_seen as u64)
            .with("select_events", s.select_events as u64)
            .with("accepts", s.accepts as u64)
            .with("multi_packet_sends", s.multi_packet as u64)
            .with("destroyed_in_transit", s.destroyed_in_transit as u64))
    }
}
