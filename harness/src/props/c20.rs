//! C20 - a receiver turned into an async stream yields the same messages, then ends.
//!
//! 1..32 streams are created from 1..8 threads; per channel 0..50 messages of which a prefix is
//! queued before `to_stream()`, the rest is sent afterwards with jitter; senders are dropped at the
//! end.  Consumers: (a) a manual poll loop with a counting waker, (b)
//! `futures::executor::block_on(stream.collect())` on separate threads, (c) one `LocalPool` driving
//! several streams.
//! Oracle: per stream the items are exactly the sent sequence, once each, in order, whole, and
//! tagged with that stream; end-of-stream only after the sender drop started and after all items;
//! after a `Pending` the registered waker is woken when something arrives (awaited under the hang
//! rule); streams do not see each other's items.

use crate::engine::{Ctx, Failure, Outcome, Prop};
use crate::interpose::stamp;
use crate::node::Node;
use crate::payload;
use crate::props::c01;
use crate::sandbox;
use crate::{ensure, fail};
use futures::executor::{block_on, LocalPool};
use futures::task::{ArcWake, LocalSpawnExt};
use futures::StreamExt;
use ipc_channel::asynch::IpcStream;
use ipc_channel::ipc::{self, IpcSender};
use proptest::prelude::*;
use serde::{Deserialize, Serialize};
use std::sync::atomic::{AtomicBool, AtomicU64, Ordering::SeqCst};
use std::sync::{Arc, Mutex};
use std::task::{Context, Poll};
use std::time::{Duration, Instant};

pub struct C20;

#[derive(Clone, Debug, Serialize, Deserialize)]
pub struct StreamPlan {
    pub msgs: Vec<u8>,
    pub before: u8,
    pub thread: u8,
    /// 0 manual poll loop, 1 block_on(collect), 2 shared LocalPool
    pub consumer: u8,
    pub jitter: u16,
}

#[derive(Clone, Debug, Serialize, Deserialize)]
pub struct Case {
    pub streams: Vec<StreamPlan>,
    /// all streams are created idle (nothing queued before conversion, senders alive); then every
    /// creator thread sends one message on one of its streams and waits for it to be yielded
    /// before any other traffic exists
    #[serde(default)]
    pub idle_probe: bool,
}

fn msg_len(class: u8) -> usize {
    let (f1, f) = c01::capacities();
    match class {
        0 => 56,
        k => (f1 + (k as usize - 1) * f + 64).min(150_000),
    }
}

fn message(stream: u32, seq: u32, class: u8) -> Node {
    Node::Tagged { chan: stream, sender: 0, seq, body: payload::make(stream, 0, seq, msg_len(class), ((stream as u64) << 16 | seq as u64) + 1) }
}

#[derive(Debug, Clone)]
enum Item {
    Msg(u32, u32),
    Bad(String),
    End(u64),
}

fn item_of(r: Result<Node, ipc_channel::Error>) -> Item {
    match r {
        Ok(Node::Tagged { chan, seq, body, .. }) => match payload::parse(&body) {
            Ok(p) if p.chan == chan && p.seq == seq => Item::Msg(chan, seq),
            Ok(_) => Item::Bad("tag and body disagree".into()),
            Err(e) => Item::Bad(e),
        },
        Ok(other) => Item::Bad(format!("unexpected value {}", crate::node::rendered(&other))),
        Err(e) => Item::Bad(format!("undecodable item: {}", e)),
    }
}

struct Waker {
    wakes: AtomicU64,
    thread: std::thread::Thread,
}
impl ArcWake for Waker {
    fn wake_by_ref(a: &Arc<Self>) {
        a.wakes.fetch_add(1, SeqCst);
        a.thread.unpark();
    }
}

impl Prop for C20 {
    type Case = Case;
    const ID: &'static str = "C20";
    const SCHEDULE_DEPENDENT: bool = true;

    fn setup(ctx: &Ctx) {
        c01::measure_capacities_for(ctx);
    }

    fn cases(ctx: &Ctx) -> u32 {
        ctx.param_u64("cases", ctx.pick(1000, 25000) as u64) as u32
    }

    fn strategy(_ctx: &Ctx) -> BoxedStrategy<Case> {
        let plan = (proptest::collection::vec(prop_oneof![6 => Just(0u8), 1 => 1u8..4], 0..=50), any::<u8>(), 0u8..8, 0u8..3, 0u16..1500).prop_map(|(mut msgs, before, thread, consumer, jitter)| {
            let mut multi = 0;
            for c in msgs.iter_mut() {
                if *c > 0 {
                    multi += 1;
                    if multi > 6 {
                        *c = 0;
                    }
                }
            }
            let before = if msgs.is_empty() { 0 } else { before % (msgs.len() as u8 + 1) };
            StreamPlan { msgs, before, thread, consumer, jitter }
        });
        (proptest::collection::vec(plan, 1..=32), proptest::bool::weighted(0.3))
            .prop_map(|(mut streams, idle_probe)| {
                if idle_probe {
                    for s in streams.iter_mut() {
                        s.before = 0;
                        if s.consumer % 3 == 1 {
                            s.consumer = 0; // progress must be observable item by item
                        }
                    }
                }
                Case { streams, idle_probe }
            })
            .boxed()
    }

    fn exec(_ctx: &Ctx, case: &Case) -> Result<Outcome, Failure> {
        run(case)
    }
}

type Log = Arc<Mutex<Vec<Item>>>;

fn run(case: &Case) -> Result<Outcome, Failure> {
    let n = case.streams.len();
    let wd = Duration::from_secs(sandbox::watchdog_secs());
    let logs: Vec<Log> = (0..n).map(|_| Arc::new(Mutex::new(vec![]))).collect();
    let drop_started: Vec<Arc<AtomicU64>> = (0..n).map(|_| Default::default()).collect();
    let senders_done = Arc::new(AtomicBool::new(false));
    let lost_wakeup: Arc<Mutex<Option<String>>> = Default::default();
    let wakes_total = Arc::new(AtomicU64::new(0));
    let pendings_total = Arc::new(AtomicU64::new(0));

    // creator threads make the channels, queue the prefix, convert to streams and hand them out
    let mut by_thread: Vec<Vec<usize>> = (0..8).map(|_| vec![]).collect();
    for (i, s) in case.streams.iter().enumerate() {
        by_thread[(s.thread % 8) as usize].push(i);
    }
    let n_creators = by_thread.iter().filter(|l| !l.is_empty()).count();
    let barrier = Arc::new(std::sync::Barrier::new(n_creators));
    let idle_probe = case.idle_probe;
    let (pool_tx, pool_rx) = std::sync::mpsc::channel::<(usize, IpcStream<Node>)>();
    let mut creators = vec![];
    let consumer_handles: Arc<Mutex<Vec<std::thread::JoinHandle<()>>>> = Default::default();
    for list in by_thread.into_iter().filter(|l| !l.is_empty()) {
        let plans: Vec<(usize, StreamPlan)> = list.iter().map(|&i| (i, case.streams[i].clone())).collect();
        let logs_t: Vec<Log> = list.iter().map(|&i| logs[i].clone()).collect();
        let drops_t: Vec<Arc<AtomicU64>> = list.iter().map(|&i| drop_started[i].clone()).collect();
        let pool_tx = pool_tx.clone();
        let ch = consumer_handles.clone();
        let (sd, lw, wt, pt) = (senders_done.clone(), lost_wakeup.clone(), wakes_total.clone(), pendings_total.clone());
        let barrier = barrier.clone();
        creators.push(std::thread::spawn(move || -> Result<(), String> {
            let mut live: Vec<(usize, StreamPlan, IpcSender<Node>, u32)> = vec![];
            for (li, (i, p)) in plans.iter().enumerate() {
                let (tx, rx) = ipc::channel::<Node>().map_err(|e| e.to_string())?;
                for k in 0..p.before as usize {
                    tx.send(message(*i as u32, k as u32, p.msgs[k])).map_err(|e| format!("send before to_stream failed: {}", e))?;
                }
                let stream = rx.to_stream();
                let log = logs_t[li].clone();
                match p.consumer % 3 {
                    0 => {
                        let (sd, lw, wt, pt) = (sd.clone(), lw.clone(), wt.clone(), pt.clone());
                        let idx = *i;
                        let h = std::thread::spawn(move || {
                            let mut stream = stream;
                            let waker_state = Arc::new(Waker { wakes: AtomicU64::new(0), thread: std::thread::current() });
                            let waker = futures::task::waker(waker_state.clone());
                            let mut cx = Context::from_waker(&waker);
                            loop {
                                let w0 = waker_state.wakes.load(SeqCst);
                                match stream.poll_next_unpin(&mut cx) {
                                    Poll::Ready(Some(r)) => log.lock().unwrap().push(item_of(r)),
                                    Poll::Ready(None) => {
                                        log.lock().unwrap().push(Item::End(stamp()));
                                        break;
                                    },
                                    Poll::Pending => {
                                        pt.fetch_add(1, SeqCst);
                                        // wait for the registered waker
                                        let mut waited_after_done: Option<Instant> = None;
                                        loop {
                                            if waker_state.wakes.load(SeqCst) > w0 {
                                                wt.fetch_add(1, SeqCst);
                                                break;
                                            }
                                            std::thread::park_timeout(Duration::from_millis(50));
                                            if sd.load(SeqCst) {
                                                // every sender has finished and dropped: the end of the
                                                // stream (at least) is due, so a wake-up must come
                                                let t = waited_after_done.get_or_insert_with(Instant::now);
                                                if t.elapsed() > Duration::from_secs(sandbox::watchdog_secs()) {
                                                    *lw.lock().unwrap() = Some(format!("stream {}: poll_next returned Pending, all senders have since sent everything and dropped, but the registered waker was never woken", idx));
                                                    return;
                                                }
                                            }
                                        }
                                    },
                                }
                            }
                        });
                        ch.lock().unwrap().push(h);
                    },
                    1 => {
                        let h = std::thread::spawn(move || {
                            let items: Vec<Result<Node, ipc_channel::Error>> = block_on(stream.collect());
                            let mut l = log.lock().unwrap();
                            for r in items {
                                l.push(item_of(r));
                            }
                            l.push(Item::End(stamp()));
                        });
                        ch.lock().unwrap().push(h);
                    },
                    _ => {
                        let _ = pool_tx.send((*i, stream));
                    },
                }
                live.push((*i, p.clone(), tx, p.before as u32));
            }
            if idle_probe {
                // every stream of the case exists now and is idle
                barrier.wait();
                let mut probe: Result<(), String> = Ok(());
                if let Some((li, (i, p, tx, next))) = live.iter_mut().enumerate().find(|(_, (_, p, _, _))| !p.msgs.is_empty()) {
                    match tx.send(message(*i as u32, 0, p.msgs[0])) {
                        Err(e) => probe = Err(format!("send on an idle streamed channel failed: {}", e)),
                        Ok(()) => {
                            *next = 1;
                            let t0 = Instant::now();
                            while logs_t[li].lock().unwrap().is_empty() {
                                if t0.elapsed() > Duration::from_secs(sandbox::watchdog_secs()) {
                                    probe = Err(format!("IDLE stream {}: converted to a stream while idle (in a burst with the other streams), then one message was sent - it was never yielded although nothing else is going on", i));
                                    break;
                                }
                                std::thread::sleep(Duration::from_micros(200));
                            }
                        },
                    }
                }
                barrier.wait();
                probe?;
            }
            let maxlen = live.iter().map(|(_, p, _, _)| p.msgs.len()).max().unwrap_or(0);
            for _ in 0..maxlen {
                for (i, p, tx, next) in live.iter_mut() {
                    if (*next as usize) < p.msgs.len() {
                        sandbox::spin(p.jitter as u32);
                        tx.send(message(*i as u32, *next, p.msgs[*next as usize])).map_err(|e| format!("send on a streamed channel failed: {}", e))?;
                        *next += 1;
                    }
                }
            }
            for (li, (_, _, tx, _)) in live.into_iter().enumerate() {
                drops_t[li].store(stamp(), SeqCst);
                drop(tx);
            }
            Ok(())
        }));
    }
    drop(pool_tx);
    // the LocalPool consumer: one thread drives all streams handed to it
    let logs_pool = logs.clone();
    let pool_thread = std::thread::spawn(move || {
        let mut pool = LocalPool::new();
        let spawner = pool.spawner();
        // streams arrive while the creators run: adopt them as they come and keep polling
        loop {
            let adopt = |i: usize, stream: IpcStream<Node>| {
                let log = logs_pool[i].clone();
                let _ = spawner.spawn_local(async move {
                    let mut stream = stream;
                    while let Some(r) = stream.next().await {
                        log.lock().unwrap().push(item_of(r));
                    }
                    log.lock().unwrap().push(Item::End(stamp()));
                });
            };
            match pool_rx.try_recv() {
                Ok((i, stream)) => adopt(i, stream),
                Err(std::sync::mpsc::TryRecvError::Empty) => {
                    pool.run_until_stalled();
                    std::thread::sleep(Duration::from_micros(200));
                },
                Err(std::sync::mpsc::TryRecvError::Disconnected) => break,
            }
        }
        pool.run();
    });
    for c in creators {
        match sandbox::watched(move || c.join()) {
            Ok(Ok(Ok(()))) => {},
            Ok(Ok(Err(e))) if e.starts_with("IDLE") => fail!("stream:idle-stream-never-delivers", "{}", e),
            Ok(Ok(Err(e))) => fail!("stream:send-failed", "{}", e),
            Ok(Err(_)) => fail!("stream:creator-panicked", "{:?}", crate::take_panics()),
            Err(h) => return Err(sandbox::hang_failure("stream:creator-hangs", "a thread creating streams / sending never finished", h)),
        }
    }
    senders_done.store(true, SeqCst);
    let all_dropped = stamp();
    // consumers must finish: end-of-stream after the last sender is gone
    let handles: Vec<_> = std::mem::take(&mut *consumer_handles.lock().unwrap());
    let t0 = Instant::now();
    let finished = sandbox::watched_for(wd * 3, move || {
        for h in handles {
            let _ = h.join();
        }
        let _ = pool_thread.join();
    });
    if let Some(m) = lost_wakeup.lock().unwrap().take() {
        fail!("stream:pending-never-woken", "{}", m);
    }
    if let Err(h) = finished {
        // which streams did not end?
        let open: Vec<usize> = (0..n).filter(|&i| !logs[i].lock().unwrap().iter().any(|x| matches!(x, Item::End(_)))).collect();
        let detail = format!("all senders dropped by stamp {} ({} s ago) but streams {:?} never yielded end-of-stream (items so far: {:?})", all_dropped, t0.elapsed().as_secs(), open, open.iter().map(|&i| logs[i].lock().unwrap().len()).collect::<Vec<_>>());
        return Err(sandbox::hang_failure("stream:never-ends", &detail, h));
    }
    // ---- oracle ----------------------------------------------------------------------------------------
    let mut threads = std::collections::BTreeSet::new();
    let mut both = false;
    for i in 0..n {
        let p = &case.streams[i];
        threads.insert(p.thread % 8);
        both |= p.before > 0 && (p.before as usize) < p.msgs.len();
        let log = logs[i].lock().unwrap().clone();
        let mut next = 0u32;
        let mut ended = false;
        for it in &log {
            match it {
                Item::Msg(s, q) => {
                    ensure!(!ended, "stream:item-after-end", "stream {}: an item arrived after end-of-stream", i);
                    ensure!(*s == i as u32, "stream:foreign-item", "stream {} yielded an item of stream {}", i, s);
                    ensure!(*q == next, "stream:order-or-duplicate", "stream {}: expected item {} but got {}", i, next, q);
                    next += 1;
                },
                Item::Bad(e) => fail!("stream:item-not-whole", "stream {}: {}", i, e),
                Item::End(at) => {
                    ended = true;
                    let ds = drop_started[i].load(SeqCst);
                    ensure!(ds != 0 && ds < *at, "stream:ended-early", "stream {} ended at stamp {} before its sender's drop started ({})", i, at, ds);
                },
            }
        }
        ensure!(ended, "stream:never-ends", "stream {} did not yield end-of-stream", i);
        ensure!(next as usize == p.msgs.len(), "stream:items-lost", "stream {}: {} of {} messages were yielded before end-of-stream", i, next, p.msgs.len());
    }
    let nt = n >= 2 && threads.len() >= 2 && both;
    let class = format!(
        "{}streams/{}threads{}{}{}",
        match n {
            1 => "1",
            2..=8 => "2-8",
            _ => "9-32",
        },
        threads.len(),
        if both { "+queued-and-later" } else { "" },
        if case.streams.iter().any(|p| p.msgs.iter().any(|c| *c > 0)) { "+multipacket" } else { "" },
        if case.idle_probe { "+idle-burst-probe" } else { "" }
    );
    let nt = nt || (case.idle_probe && n >= 2 && threads.len() >= 2);
    Ok(Outcome::new(nt, class)
        .with("streams", n as u64)
        .with("pending_polls", pendings_total.load(SeqCst))
        .with("wakeups_after_pending", wakes_total.load(SeqCst)))
}
