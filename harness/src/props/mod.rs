//! One module per property: executor + oracle.
use crate::engine::{self, Ctx};

pub mod c01;
pub mod c02;
pub mod c03;
pub mod c04;
pub mod c05;
pub mod c06;
pub mod c07;
pub mod c08;
pub mod c09;
pub mod c10;
#[cfg(not(feature = "inproc"))]
pub mod c11;
#[cfg(not(feature = "inproc"))]
pub mod c12;
pub mod c13;
pub mod c14;
pub mod c15;
#[cfg(not(feature = "inproc"))]
pub mod c16;
pub mod c17;
#[cfg(not(feature = "inproc"))]
pub mod c18;
pub mod c19;
#[cfg(feature = "asynch")]
pub mod c20;

macro_rules! table {
    ($($(#[$m:meta])* $id:literal => $t:ty),* $(,)?) => {
        pub fn dispatch_run(ctx: &Ctx) -> i32 {
            match ctx.prop.as_str() {
                $($(#[$m])* $id => engine::run::<$t>(ctx),)*
                other => { eprintln!("property {} is not available in build {}", other, engine::BUILD); 3 }
            }
        }
        pub fn dispatch_replay(ctx: &Ctx, doc: &serde_json::Value, path: &str) -> i32 {
            match ctx.prop.as_str() {
                $($(#[$m])* $id => engine::replay::<$t>(ctx, doc, path),)*
                other => { eprintln!("property {} is not available in build {}", other, engine::BUILD); 3 }
            }
        }
    };
}

table! {
    "C01" => c01::C01,
    "C02" => c02::C02,
    "C03" => c03::C03,
    "C04" => c04::C04,
    "C05" => c05::C05,
    "C06" => c06::C06,
    "C07" => c07::C07,
    "C08" => c08::C08,
    "C09" => c09::C09,
    "C10" => c10::C10,
    #[cfg(not(feature = "inproc"))]
    "C11" => c11::C11,
    #[cfg(not(feature = "inproc"))]
    "C12" => c12::C12,
    "C13" => c13::C13,
    "C14" => c14::C14,
    "C15" => c15::C15,
    #[cfg(not(feature = "inproc"))]
    "C16" => c16::C16,
    "C17" => c17::C17,
    #[cfg(not(feature = "inproc"))]
    "C18" => c18::C18,
    "C19" => c19::C19,
    #[cfg(feature = "asynch")]
    "C20" => c20::C20,
}

pub fn helper(args: &[String]) -> i32 {
    match args.first().map(|s| s.as_str()) {
        Some("c08client") => c08::helper_main(&args[1..]),
        Some("sleep") => {
            // bystander: announce that we are up, then wait until killed or stdin closes
            use std::io::{Read, Write};
            let _ = std::io::stdout().write_all(b"x");
            let _ = std::io::stdout().flush();
            let mut b = [0u8; 1];
            let _ = std::io::stdin().read(&mut b);
            0
        },
        #[cfg(not(feature = "inproc"))]
        Some("fdlist") => c11::helper_fdlist(),
        _ => {
            eprintln!("unknown helper {:?}", args);
            2
        },
    }
}
