//! I4 - sacrificial processes and watchdogs.

use crate::engine::Failure;
use std::io::{Read, Write};
use std::os::unix::io::FromRawFd;
use std::sync::mpsc;
use std::time::{Duration, Instant};

pub fn watchdog_secs() -> u64 {
    std::env::var("IPCV_WATCHDOG").ok().and_then(|s| s.parse().ok()).unwrap_or(10)
}

#[derive(Debug)]
pub struct Hang {
    pub tid: i32,
    pub state: String,
    pub syscall: String,
    /// clock ticks of CPU time the thread consumed during the one-second sampling interval
    pub cpu_ticks: u64,
    /// the thread did not hang at all: it panicked (message of the panic)
    pub panicked: Option<String>,
}

fn panic_text(p: Box<dyn std::any::Any + Send>) -> String {
    if let Some(s) = p.downcast_ref::<&str>() {
        s.to_string()
    } else if let Some(s) = p.downcast_ref::<String>() {
        s.clone()
    } else {
        "<non-string panic payload>".into()
    }
}

fn task_info(tid: i32) -> (String, String, u64) {
    let stat = std::fs::read_to_string(format!("/proc/self/task/{}/stat", tid)).unwrap_or_default();
    // fields after the ")" closing the comm: state is the first, utime/stime the 12th/13th
    let rest: Vec<&str> = stat.rsplit(')').next().unwrap_or("").split_whitespace().collect();
    let state = rest.first().unwrap_or(&"?").to_string();
    let ticks = rest.get(11).and_then(|x| x.parse::<u64>().ok()).unwrap_or(0) + rest.get(12).and_then(|x| x.parse::<u64>().ok()).unwrap_or(0);
    let sc = std::fs::read_to_string(format!("/proc/self/task/{}/syscall", tid)).unwrap_or_default();
    (state, sc.split_whitespace().next().unwrap_or("?").to_string(), ticks)
}

/// Run `f` on a helper thread; if it does not finish within the watchdog, report a hang
/// (the thread stays stuck: the process is poisoned afterwards).  Hang rule 3.9(iii): the thread
/// must be seen sleeping in the same syscall at two samples one second apart.
pub fn watched<T: Send + 'static>(f: impl FnOnce() -> T + Send + 'static) -> Result<T, Hang> {
    watched_for(Duration::from_secs(watchdog_secs()), f)
}

pub fn watched_for<T: Send + 'static>(
    limit: Duration,
    f: impl FnOnce() -> T + Send + 'static,
) -> Result<T, Hang> {
    let (tx, rx) = mpsc::channel();
    let (tid_tx, tid_rx) = mpsc::channel();
    let jh = std::thread::Builder::new()
        .name("watched".into())
        .spawn(move || {
            let _ = tid_tx.send(crate::interpose::gettid());
            let r = f();
            let _ = tx.send(r);
        })
        .expect("spawn watched thread");
    let tid = tid_rx.recv().unwrap_or(0);
    match rx.recv_timeout(limit) {
        Ok(v) => {
            // the thread is over: join it so that the process is single-threaded again (fork safety)
            let _ = jh.join();
            Ok(v)
        },
        Err(mpsc::RecvTimeoutError::Disconnected) => Err(panicked(tid, jh)),
        Err(mpsc::RecvTimeoutError::Timeout) => {
            let (s1, c1, t1) = task_info(tid);
            // one more second: maybe it was only slow
            match rx.recv_timeout(Duration::from_secs(1)) {
                Ok(v) => {
                    let _ = jh.join();
                    Ok(v)
                },
                Err(mpsc::RecvTimeoutError::Disconnected) => Err(panicked(tid, jh)),
                Err(mpsc::RecvTimeoutError::Timeout) => {
                    let (s2, c2, t2) = task_info(tid);
                    Err(Hang { tid, state: format!("{}/{}", s1, s2), syscall: format!("{}/{}", c1, c2), cpu_ticks: t2.saturating_sub(t1), panicked: None })
                },
            }
        },
    }
}

/// The watched thread is gone without a result: the call under test unwound with a panic.
fn panicked<T>(tid: i32, jh: std::thread::JoinHandle<T>) -> Hang {
    let msg = match jh.join() {
        Err(p) => panic_text(p),
        Ok(_) => "<thread ended without a result>".into(),
    };
    Hang { tid, state: "-".into(), syscall: "-".into(), cpu_ticks: 0, panicked: Some(msg) }
}

pub fn hang_failure(sig: &str, what: &str, h: Hang) -> Failure {
    if let Some(msg) = &h.panicked {
        // no property allows a call of the crate to panic on the inputs the harness generates
        let hooked = crate::take_panics().join(" | ");
        return Failure::new("call:panicked", format!("{}: the call panicked instead of returning: {} [{}]", what, msg, hooked));
    }
    // sleeping ("S") in the same syscall at both samples => established hang, else inconclusive
    let st: Vec<&str> = h.state.split('/').collect();
    let sc: Vec<&str> = h.syscall.split('/').collect();
    let ticks_per_s = unsafe { libc::sysconf(libc::_SC_CLK_TCK) }.max(1) as u64;
    if st.len() == 2 && st[0] == "S" && st[1] == "S" && sc[0] == sc[1] {
        Failure::new(sig, format!("{}: thread {} blocked (state {}, syscall {})", what, h.tid, h.state, h.syscall)).poisoned()
    } else if h.cpu_ticks * 2 >= ticks_per_s {
        // not asleep but burning CPU (at least half of the sampling second): a call that spins
        // without ever returning; a merely starved thread would not accumulate CPU time
        Failure::new(sig, format!("{}: thread {} never returns and keeps spinning (state {}, {} of {} clock ticks consumed in the sampling second)", what, h.tid, h.state, h.cpu_ticks, ticks_per_s)).poisoned()
    } else {
        Failure::inconclusive(format!("{}: watchdog expired but thread not asleep (state {}, syscall {})", what, h.state, h.syscall)).poisoned()
    }
}

/// Marker that precedes the thread samples `Child::wait` appends to the report of a child that
/// ran into its time limit.
pub const TIMEOUT_DIAG: &str = "\n#threads-at-timeout# ";

/// "tid:state:syscall:wchan" of every thread of a process.
fn proc_threads(pid: libc::pid_t) -> String {
    let mut v = vec![];
    if let Ok(dir) = std::fs::read_dir(format!("/proc/{}/task", pid)) {
        for e in dir.flatten() {
            let t = e.file_name().to_string_lossy().to_string();
            let stat = std::fs::read_to_string(format!("/proc/{}/task/{}/stat", pid, t)).unwrap_or_default();
            let state = stat.rsplit(')').next().unwrap_or("").split_whitespace().next().unwrap_or("?").to_string();
            let sc = std::fs::read_to_string(format!("/proc/{}/task/{}/syscall", pid, t)).unwrap_or_default();
            let wchan = std::fs::read_to_string(format!("/proc/{}/task/{}/wchan", pid, t)).unwrap_or_default();
            v.push(format!("{}:{}:{}:{}", t, state, sc.split_whitespace().next().unwrap_or("?"), wchan.trim()));
        }
    }
    v.sort();
    v.join(",")
}

/// Verdict for a forked child that ran into its time limit, by the hang rule: it is a hang if
/// every thread was asleep in the same system call at both samples; a child that was still
/// running (or whose threads moved) was merely slow - inconclusive.
pub fn child_timeout_failure(sig: &str, what: &str, report: &[u8]) -> Failure {
    let text = String::from_utf8_lossy(report).to_string();
    let (own, diag) = match text.split_once(TIMEOUT_DIAG) {
        Some((a, b)) => (a.to_string(), b.to_string()),
        None => (text.clone(), String::new()),
    };
    let asleep = match diag.split_once(" || ") {
        Some((a, b)) => !a.is_empty() && a == b && a.split(',').all(|t| t.split(':').nth(1) == Some("S")),
        None => false,
    };
    if asleep {
        Failure::new(sig, format!("{} (every thread of the child asleep in the same call at two samples: {}) {}", what, diag, own))
    } else {
        Failure::inconclusive(format!("{}: time limit reached but the child was not asleep ({}) {}", what, diag, own))
    }
}

#[derive(Debug, Clone)]
pub enum ChildEnd {
    Exited(i32),
    Signaled(i32),
    TimedOut,
}

pub struct Child {
    pub pid: libc::pid_t,
    /// read end of the child's report pipe
    pub report: std::fs::File,
    reaped: bool,
}

impl Drop for Child {
    fn drop(&mut self) {
        // a child that nobody waited for (the case returned early) must not linger
        if !self.reaped {
            unsafe {
                libc::kill(self.pid, libc::SIGKILL);
                let mut st = 0;
                libc::waitpid(self.pid, &mut st, 0);
            }
        }
    }
}

/// Forking is only safe while no other thread of this process is around (not even one that is
/// on its way out): wait, bounded, until /proc/self/task lists a single thread.
pub fn wait_until_single_threaded(limit: Duration) -> bool {
    let t0 = Instant::now();
    loop {
        let n = std::fs::read_dir("/proc/self/task").map(|d| d.count()).unwrap_or(1);
        if n <= 1 {
            return true;
        }
        if t0.elapsed() > limit {
            return false;
        }
        std::thread::sleep(Duration::from_micros(100));
    }
}

/// Fork a child that runs `f` with a writer for its report and then `_exit`s with f's return value.
/// The caller must be single-threaded (or `f` must restrict itself to async-signal-safe work plus
/// whatever the harness knows is safe: no locks held by other threads at fork time).
pub fn fork_child(f: impl FnOnce(&mut std::fs::File) -> i32) -> Child {
    let mut fds = [0i32; 2];
    assert_eq!(unsafe { libc::pipe2(fds.as_mut_ptr(), libc::O_CLOEXEC) }, 0);
    let pid = unsafe { libc::fork() };
    assert!(pid >= 0, "fork failed");
    if pid == 0 {
        // never outlive the worker process
        unsafe { libc::prctl(libc::PR_SET_PDEATHSIG, libc::SIGKILL) };
        crate::interpose::raw_close(fds[0]);
        let mut w = unsafe { std::fs::File::from_raw_fd(fds[1]) };
        let code = match std::panic::catch_unwind(std::panic::AssertUnwindSafe(|| f(&mut w))) {
            Ok(c) => c,
            Err(_) => 101,
        };
        let _ = w.flush();
        unsafe { libc::_exit(code) };
    }
    crate::interpose::raw_close(fds[1]);
    Child { pid, report: unsafe { std::fs::File::from_raw_fd(fds[0]) }, reaped: false }
}

impl Child {
    /// Wait for the child with a timeout (kills it on expiry). Returns how it ended and its report.
    pub fn wait(mut self, limit: Duration) -> (ChildEnd, Vec<u8>) {
        let t0 = Instant::now();
        let mut status = 0i32;
        let end;
        let mut diag = String::new();
        loop {
            let r = unsafe { libc::waitpid(self.pid, &mut status, libc::WNOHANG) };
            if r == self.pid {
                self.reaped = true;
                end = if libc::WIFEXITED(status) {
                    ChildEnd::Exited(libc::WEXITSTATUS(status))
                } else if libc::WIFSIGNALED(status) {
                    ChildEnd::Signaled(libc::WTERMSIG(status))
                } else {
                    ChildEnd::Exited(-1)
                };
                break;
            }
            if t0.elapsed() > limit {
                // where is it? two samples of every thread, one second apart (hang rule)
                diag = format!("{} || {}", proc_threads(self.pid), {
                    std::thread::sleep(Duration::from_secs(1));
                    proc_threads(self.pid)
                });
                unsafe {
                    libc::kill(self.pid, libc::SIGKILL);
                    libc::waitpid(self.pid, &mut status, 0);
                }
                self.reaped = true;
                end = ChildEnd::TimedOut;
                break;
            }
            std::thread::sleep(Duration::from_micros(200));
        }
        let mut buf = vec![];
        // non-blocking read of whatever the child wrote (the pipe may still be held open by a
        // grandchild; do not wait for EOF in that case)
        unsafe {
            use std::os::unix::io::AsRawFd;
            let fd = self.report.as_raw_fd();
            let fl = libc::fcntl(fd, libc::F_GETFL);
            libc::fcntl(fd, libc::F_SETFL, fl | libc::O_NONBLOCK);
        }
        let _ = self.report.read_to_end(&mut buf);
        if !diag.is_empty() {
            buf.extend_from_slice(TIMEOUT_DIAG.as_bytes());
            buf.extend_from_slice(diag.as_bytes());
        }
        (end, buf)
    }

    pub fn kill(&self) {
        unsafe { libc::kill(self.pid, libc::SIGKILL) };
    }
}

/// Busy-wait for a number of spin iterations (generated jitter; no clock involved).
pub fn spin(n: u32) {
    for _ in 0..n {
        std::hint::spin_loop();
    }
}

/// Private short TMPDIR for this worker; removed at exit by `cleanup_tmpdir`.
pub fn private_tmpdir() -> String {
    let dir = format!("/tmp/ipcv.{}", std::process::id());
    let _ = std::fs::create_dir_all(&dir);
    std::env::set_var("TMPDIR", &dir);
    dir
}
pub fn cleanup_tmpdir(dir: &str) {
    let _ = std::fs::remove_dir_all(dir);
}

/// Run a whole case in a forked child (the caller must be single-threaded) and ship the verdict
/// back over the report pipe.  `prepare` runs in the child first (e.g. reset SIGPIPE).
pub fn exec_in_child(
    limit: Duration,
    prepare: impl FnOnce(),
    f: impl FnOnce() -> Result<crate::engine::Outcome, Failure>,
) -> (ChildEnd, Option<Result<crate::engine::Outcome, Failure>>) {
    use serde_json::json;
    let child = fork_child(|w| {
        prepare();
        let r = f();
        let doc = match &r {
            Ok(o) => json!({"ok": true, "nontrivial": o.nontrivial, "class": o.class,
                "counters": o.counters.iter().map(|(k, v)| json!([k, v])).collect::<Vec<_>>(), "trace": o.trace_hash}),
            Err(e) => json!({"ok": false, "signature": e.signature, "detail": e.detail, "inconclusive": e.inconclusive}),
        };
        let _ = w.write_all(doc.to_string().as_bytes());
        0
    });
    let (end, buf) = child.wait(limit);
    // (a child that ran into the limit has thread samples appended to its report)
    let own_len = String::from_utf8_lossy(&buf).find(TIMEOUT_DIAG).unwrap_or(buf.len());
    let parsed = serde_json::from_slice::<serde_json::Value>(&buf[..own_len.min(buf.len())]).ok().map(|v| {
        if v["ok"].as_bool() == Some(true) {
            let mut o = crate::engine::Outcome::new(v["nontrivial"].as_bool().unwrap_or(false), v["class"].as_str().unwrap_or("").to_string());
            if let Some(a) = v["counters"].as_array() {
                for kv in a {
                    if let (Some(k), Some(n)) = (kv[0].as_str(), kv[1].as_u64()) {
                        o.counters.push((leak_str(k), n));
                    }
                }
            }
            o.trace_hash = v["trace"].as_u64();
            Ok(o)
        } else {
            let mut f = Failure::new(v["signature"].as_str().unwrap_or("?").to_string(), v["detail"].as_str().unwrap_or("").to_string());
            f.inconclusive = v["inconclusive"].as_bool().unwrap_or(false);
            Err(f)
        }
    });
    (end, parsed)
}

fn leak_str(s: &str) -> &'static str {
    // counter names form a small fixed set; interning by leaking is bounded
    use std::collections::HashMap;
    use std::sync::Mutex;
    static TABLE: Mutex<Option<HashMap<String, &'static str>>> = Mutex::new(None);
    let mut g = TABLE.lock().unwrap();
    let t = g.get_or_insert_with(HashMap::new);
    if let Some(x) = t.get(s) {
        return x;
    }
    let l: &'static str = Box::leak(s.to_string().into_boxed_str());
    t.insert(s.to_string(), l);
    l
}
