//! I3 - executable world model, run in lock-step with the real crate.
//!
//! `World` holds, side by side, an ideal unbounded-FIFO model of channels / handles / messages in
//! flight / regions / receiver sets / one-shot servers and the real ipc-channel objects.  `step`
//! applies one operation to both and compares the observable result at once.  Programs are
//! *constructed*, not filtered: an operation whose precondition does not hold in the model (no
//! candidate handle, would block, over the kernel budget) becomes a recorded no-op, which is a
//! deterministic function of the program alone and therefore identical on every build.
//!
//! Semantics of the model (section 3.3 of DESIGN.md): `send` moves embedded receivers and transfers
//! embedded sender copies into the message; `recv` pops the head and hands the embedded handles to
//! the caller; dropping a receiver (or a set, a server, a message, or a queue that contains
//! messages) destroys everything reachable only through it, recursively.  A channel is connected
//! iff some sender handle of it is alive (held, or inside a live message).  Families of channels
//! are acyclic by construction: an endpoint of channel a travels over channel b only if b < a.

use crate::engine::Failure;
use crate::node::{self, Binder, EpKind, Handle, Node, NP};
use crate::payload;
use crate::sandbox;
use ipc_channel::ipc::{
    self, IpcBytesReceiver, IpcBytesSender, IpcError, IpcOneShotServer, IpcReceiver, IpcReceiverSet,
    IpcSelectionResult, IpcSender, IpcSharedMemory, TryRecvError,
};
use serde::{Deserialize, Serialize};
use std::collections::VecDeque;
use std::time::Duration;

#[derive(Clone, Debug, Serialize, Deserialize, PartialEq)]
pub enum Size {
    Tiny,
    Small(u16),
    /// exactly one packet's worth of serialised data
    OnePacket,
    /// one byte more than fits one packet
    OverOne,
    /// k packets (k = 2..6)
    Multi(u8),
}

#[derive(Clone, Debug, Serialize, Deserialize, PartialEq)]
pub enum Op {
    NewChan,
    NewBytesChan,
    CloneTx(u16),
    DropTx(u16),
    DropRx(u16),
    Send { tx: u16, size: Size, tree: NP },
    Recv { rx: u16, mode: u8 },
    RegionNew { len: u32, seed: u64, fill: Option<u8> },
    RegionClone(u16),
    RegionDrop(u16),
    RegionCheck(u16),
    SetNew,
    SetAdd { set: u16, rx: u16 },
    SetSelect(u16),
    SetDrop(u16),
    SrvNew,
    SrvConnect(u16),
    SrvAccept(u16),
    SrvDrop(u16),
    /// move a sender handle to another thread, which keeps it until released
    ThreadHold(u16),
    /// move a sender handle to a forked process, which keeps it until released (OS builds)
    ForkHold(u16),
    /// the remote holder drops its handle (thread joins / process exits)
    Release(u16),
    /// drop a sender handle on a helper thread instead of the program's thread
    DropTxElsewhere(u16),
    /// spawn an unrelated child process (exec of the harness binary with `helper sleep`) that stays
    /// alive until the end of the program: it must not keep any channel alive
    Bystander,
}

pub enum Remote {
    Thread { chan: usize, go: std::sync::mpsc::Sender<()>, jh: std::thread::JoinHandle<()> },
    Process { chan: usize, pid: libc::pid_t, pipe_w: std::fs::File },
}

pub enum RealTx {
    Typed(IpcSender<Node>),
    Bytes(IpcBytesSender),
}
pub enum RealRx {
    Typed(IpcReceiver<Node>),
    Bytes(IpcBytesReceiver),
}

#[derive(Debug, Clone)]
enum ItemM {
    Tx(usize),
    Rx(usize),
    Shm { len: usize, hash: u64 },
}

struct MsgM {
    tag: u32,
    /// canonical rendering of the sent value (typed) or hash of the payload (bytes)
    rendered: String,
    items: Vec<ItemM>,
    cost: usize,
}

struct ChanM {
    bytes: bool,
    queue: VecDeque<MsgM>,
    senders: u32,
    rx_alive: bool,
    cost: usize,
    /// receiver was handed to a one-shot server and has not been accepted yet
    in_server: bool,
}

pub struct TxH {
    pub chan: usize,
    pub real: RealTx,
}
pub struct RxH {
    pub chan: usize,
    pub real: RealRx,
}
pub struct RegH {
    pub len: usize,
    pub hash: u64,
    pub real: IpcSharedMemory,
}
pub struct SetH {
    members: Vec<(u64, usize)>,
    real: Option<IpcReceiverSet>,
}
pub struct SrvH {
    chan: usize,
    name: String,
    connected: bool,
    real: Option<IpcOneShotServer<Node>>,
}

#[derive(Default, Debug, Clone)]
pub struct Stats {
    pub ops: u32,
    pub skipped: u32,
    pub channels: u32,
    pub sends_ok: u32,
    pub sends_err: u32,
    pub endpoint_transfers: u32,
    pub receiver_transfers: u32,
    pub region_transfers: u32,
    pub kinds_in_one_msg: u32,
    pub max_items_in_one_msg: u32,
    pub disconnects_seen: u32,
    pub empties_seen: u32,
    pub multi_packet: u32,
    pub selects: u32,
    pub select_events: u32,
    pub accepts: u32,
    pub destroyed_in_transit: u32,
    pub sends_to_in_transit_rx: u32,
    pub backlog_transferred: u32,
    pub zero_held_senders_with_in_transit: u32,
    pub remote_holds: u32,
    pub fork_holds: u32,
    pub rich_sends_err: u32,
    pub bystanders: u32,
    pub delivered_after_transit: u32,
}

pub struct Caps {
    pub f1: usize,
    pub f: usize,
}

pub struct World {
    chans: Vec<ChanM>,
    pub txs: Vec<TxH>,
    pub rxs: Vec<RxH>,
    pub regions: Vec<RegH>,
    pub sets: Vec<SetH>,
    pub servers: Vec<SrvH>,
    pub remotes: Vec<Remote>,
    pub bystanders: Vec<std::process::Child>,
    next_tag: u32,
    pub trace: Vec<String>,
    pub stats: Stats,
    caps: Caps,
    max_chans: usize,
    max_items: usize,
    /// free descriptor number 0 (the worker's placeholder) right before every receive/select, so
    /// that received endpoints land on it; the owner of the world restores it at the end
    pub fd0_before_receives: bool,
}

const BUDGET: usize = 90 * 1024;
const MAX_QUEUED: usize = 48;

fn pick(raw: u16, len: usize) -> usize {
    ((raw as usize) * len) >> 16
}

/// Size bincode gives to a `Node` (endpoints/regions serialise as one usize index).
pub fn bincode_size(n: &Node) -> usize {
    4 + match n {
        Node::Unit => 0,
        Node::Bool(_) | Node::U8(_) => 1,
        Node::U16(_) => 2,
        Node::U32(_) | Node::F32(_) => 4,
        Node::U64(_) | Node::I64(_) | Node::F64(_) => 8,
        Node::Char(c) => c.len_utf8(),
        Node::Str(s) => 8 + s.len(),
        Node::Bytes(v) => 8 + v.len(),
        Node::Opt(None) => 1,
        Node::Opt(Some(x)) => 1 + bincode_size(x),
        Node::List(v) => 8 + v.iter().map(bincode_size).sum::<usize>(),
        Node::Map(m) => 8 + m.iter().map(|(k, v)| 8 + k.len() + bincode_size(v)).sum::<usize>(),
        Node::Pair(a, b) => bincode_size(a) + bincode_size(b),
        Node::Struct { name, inner, .. } => 4 + 8 + name.len() + bincode_size(inner) + 4,
        Node::Tuple3(_, _, s) => 1 + 8 + 8 + s.len(),
        Node::NewType(x) => bincode_size(x),
        Node::Tagged { body, .. } => 12 + 8 + body.len(),
        Node::Tx(_) | Node::Rx(_) | Node::OTx(_) | Node::ORx(_) | Node::BTx(_) | Node::BRx(_) | Node::Shm(_) => 8,
    }
}

struct WorldBinder<'a> {
    w: &'a mut World,
    target: usize,
    items: Vec<ItemM>,
    budget_items: usize,
    kinds: u32,
}

impl<'a> Binder for WorldBinder<'a> {
    fn endpoint(&mut self, kind: EpKind, sel: u16) -> Option<Node> {
        if self.items.len() >= self.budget_items {
            return None;
        }
        let target = self.target;
        match kind {
            EpKind::Tx | EpKind::OTx | EpKind::BTx => {
                let want_bytes = kind == EpKind::BTx;
                let cand: Vec<usize> = (0..self.w.txs.len())
                    .filter(|&i| self.w.txs[i].chan > target && self.w.chans[self.w.txs[i].chan].bytes == want_bytes)
                    .collect();
                if cand.is_empty() {
                    return None;
                }
                let i = cand[pick(sel, cand.len())];
                let chan = self.w.txs[i].chan;
                let mv = sel & 1 == 1;
                let real = if mv {
                    self.w.txs.remove(i).real
                } else {
                    self.w.chans[chan].senders += 1;
                    match &self.w.txs[i].real {
                        RealTx::Typed(t) => RealTx::Typed(t.clone()),
                        RealTx::Bytes(t) => RealTx::Bytes(t.clone()),
                    }
                };
                self.items.push(ItemM::Tx(chan));
                self.kinds |= 1 << (kind as u32);
                Some(match (real, kind) {
                    (RealTx::Typed(t), EpKind::OTx) => Node::OTx(t.to_opaque()),
                    (RealTx::Typed(t), _) => Node::Tx(t),
                    (RealTx::Bytes(t), _) => Node::BTx(t),
                })
            },
            EpKind::Rx | EpKind::ORx | EpKind::BRx => {
                let want_bytes = kind == EpKind::BRx;
                let cand: Vec<usize> = (0..self.w.rxs.len())
                    .filter(|&i| self.w.rxs[i].chan > target && self.w.chans[self.w.rxs[i].chan].bytes == want_bytes)
                    .collect();
                if cand.is_empty() {
                    return None;
                }
                let i = cand[pick(sel, cand.len())];
                let h = self.w.rxs.remove(i);
                self.items.push(ItemM::Rx(h.chan));
                self.kinds |= 1 << (kind as u32);
                Some(match (h.real, kind) {
                    (RealRx::Typed(r), EpKind::ORx) => Node::ORx(r.to_opaque()),
                    (RealRx::Typed(r), _) => Node::Rx(r),
                    (RealRx::Bytes(r), _) => Node::BRx(r),
                })
            },
        }
    }

    fn region(&mut self, len: u32, seed: u64, fill: Option<u8>) -> Node {
        if self.items.len() >= self.budget_items {
            return Node::Unit;
        }
        let bytes = node::region_bytes(len, seed, fill);
        self.items.push(ItemM::Shm { len: bytes.len(), hash: payload::fnv64(&bytes) });
        self.kinds |= 1 << 8;
        Node::Shm(node::make_region(len, seed, fill))
    }
}

impl Drop for World {
    fn drop(&mut self) {
        for mut c in self.bystanders.drain(..) {
            let _ = c.kill();
            let _ = c.wait();
        }
    }
}

macro_rules! wfail {
    ($sig:expr, $($arg:tt)*) => {
        return Err(Failure::new($sig, format!($($arg)*)))
    };
}

impl World {
    pub fn new(f1: usize, f: usize) -> World {
        World {
            chans: vec![],
            txs: vec![],
            rxs: vec![],
            regions: vec![],
            sets: vec![],
            servers: vec![],
            remotes: vec![],
            bystanders: vec![],
            next_tag: 1,
            trace: vec![],
            stats: Stats::default(),
            caps: Caps { f1, f },
            max_chans: 6,
            max_items: 8,
            fd0_before_receives: false,
        }
    }

    pub fn with_max_chans(mut self, n: usize) -> World {
        self.max_chans = n;
        self
    }

    pub fn with_max_items(mut self, n: usize) -> World {
        self.max_items = n;
        self
    }

    fn big_ok(&self) -> bool {
        self.caps.f1 <= 16384
    }

    fn skip(&mut self, what: &str) -> Result<(), Failure> {
        self.stats.skipped += 1;
        self.trace.push(format!("skip:{}", what));
        Ok(())
    }

    fn new_chan(&mut self, bytes: bool) -> usize {
        self.chans.push(ChanM { bytes, queue: VecDeque::new(), senders: 1, rx_alive: true, cost: 0, in_server: false });
        self.stats.channels += 1;
        self.chans.len() - 1
    }

    /// model: destroy the receiver of channel `c` and everything reachable only through it
    fn kill_rx(&mut self, c: usize) {
        self.chans[c].rx_alive = false;
        let q = std::mem::take(&mut self.chans[c].queue);
        self.chans[c].cost = 0;
        for m in q {
            self.destroy_items(&m.items);
        }
    }

    fn destroy_items(&mut self, items: &[ItemM]) {
        for it in items {
            match it {
                ItemM::Tx(c2) => {
                    self.chans[*c2].senders -= 1;
                    self.stats.destroyed_in_transit += 1;
                },
                ItemM::Rx(c2) => {
                    self.stats.destroyed_in_transit += 1;
                    self.kill_rx(*c2);
                },
                ItemM::Shm { .. } => {},
            }
        }
    }

    fn msg_cost(&self, total: usize) -> usize {
        if total <= 600 {
            1024
        } else {
            // first packet only lives in the shared socket; skb truesize is roughly twice the payload
            2 * total.min(self.caps.f1 + 8) + 1024
        }
    }

    fn target_size(&self, size: &Size) -> usize {
        let (f1, f) = (self.caps.f1, self.caps.f);
        if !self.big_ok() {
            // real (large) packets: stay well inside one packet so that no send can block
            return match size {
                Size::Tiny => 0,
                Size::Small(n) => *n as usize % 2000,
                Size::OnePacket => 9000,
                Size::OverOne => 12000,
                Size::Multi(k) => 3000 * (*k as usize % 6 + 1),
            };
        }
        match size {
            Size::Tiny => 0,
            Size::Small(n) => *n as usize % 2000,
            Size::OnePacket => f1,
            Size::OverOne => f1 + 1,
            Size::Multi(k) => f1 + ((*k as usize).clamp(2, 6) - 1) * f - 5,
        }
    }

    /// Apply one operation to model and implementation; compare.
    pub fn step(&mut self, op: &Op) -> Result<(), Failure> {
        self.stats.ops += 1;
        match op {
            Op::NewChan | Op::NewBytesChan => {
                if self.chans.len() >= self.max_chans {
                    return self.skip("newchan:limit");
                }
                let bytes = matches!(op, Op::NewBytesChan);
                let c = self.new_chan(bytes);
                if bytes {
                    let (tx, rx) = ipc::bytes_channel().map_err(|e| Failure::inconclusive(format!("bytes_channel: {}", e)))?;
                    self.txs.push(TxH { chan: c, real: RealTx::Bytes(tx) });
                    self.rxs.push(RxH { chan: c, real: RealRx::Bytes(rx) });
                } else {
                    let (tx, rx) = ipc::channel::<Node>().map_err(|e| Failure::inconclusive(format!("channel: {}", e)))?;
                    self.txs.push(TxH { chan: c, real: RealTx::Typed(tx) });
                    self.rxs.push(RxH { chan: c, real: RealRx::Typed(rx) });
                }
                self.trace.push(format!("chan{}", c));
                Ok(())
            },
            Op::CloneTx(s) => {
                if self.txs.is_empty() || self.txs.len() >= 24 {
                    return self.skip("clone");
                }
                let i = pick(*s, self.txs.len());
                let chan = self.txs[i].chan;
                let real = match &self.txs[i].real {
                    RealTx::Typed(t) => RealTx::Typed(t.clone()),
                    RealTx::Bytes(t) => RealTx::Bytes(t.clone()),
                };
                self.chans[chan].senders += 1;
                self.txs.push(TxH { chan, real });
                self.trace.push(format!("clone{}", chan));
                Ok(())
            },
            Op::DropTx(s) => {
                if self.txs.is_empty() {
                    return self.skip("droptx");
                }
                let i = pick(*s, self.txs.len());
                let h = self.txs.remove(i);
                self.chans[h.chan].senders -= 1;
                if self.chans[h.chan].senders > 0 && !self.txs.iter().any(|t| t.chan == h.chan) {
                    self.stats.zero_held_senders_with_in_transit += 1;
                }
                drop(h.real);
                self.trace.push(format!("droptx{}", h.chan));
                Ok(())
            },
            Op::DropRx(s) => {
                if self.rxs.is_empty() {
                    return self.skip("droprx");
                }
                let i = pick(*s, self.rxs.len());
                let h = self.rxs.remove(i);
                self.kill_rx(h.chan);
                drop(h.real);
                self.trace.push(format!("droprx{}", h.chan));
                Ok(())
            },
            Op::DropTxElsewhere(s) => {
                if self.txs.is_empty() {
                    return self.skip("droptx-elsewhere");
                }
                let i = pick(*s, self.txs.len());
                let h = self.txs.remove(i);
                self.chans[h.chan].senders -= 1;
                if self.chans[h.chan].senders > 0 && !self.txs.iter().any(|t| t.chan == h.chan) {
                    self.stats.zero_held_senders_with_in_transit += 1;
                }
                let real = h.real;
                std::thread::spawn(move || drop(real)).join().map_err(|_| Failure::new("drop:panicked", "dropping a sender on another thread panicked"))?;
                self.trace.push(format!("droptx{}", h.chan));
                Ok(())
            },
            Op::ThreadHold(s) => {
                if self.txs.is_empty() || self.remotes.len() >= 4 {
                    return self.skip("threadhold");
                }
                let i = pick(*s, self.txs.len());
                let h = self.txs.remove(i);
                let (go, wait) = std::sync::mpsc::channel::<()>();
                let real = h.real;
                let jh = std::thread::spawn(move || {
                    let _ = wait.recv();
                    drop(real);
                });
                self.remotes.push(Remote::Thread { chan: h.chan, go, jh });
                self.stats.remote_holds += 1;
                self.trace.push(format!("hold{}", h.chan));
                Ok(())
            },
            Op::ForkHold(s) => {
                if cfg!(feature = "inproc") {
                    // a forked copy of an in-process channel is a different channel: thread instead
                    return self.step(&Op::ThreadHold(*s));
                }
                if self.txs.is_empty() || self.remotes.len() >= 4 || !self.servers.is_empty() || self.remotes.iter().any(|r| matches!(r, Remote::Thread { .. })) {
                    return self.skip("forkhold");
                }
                let i = pick(*s, self.txs.len());
                let h = self.txs.remove(i);
                let mut fds = [0i32; 2];
                let mut ready = [0i32; 2];
                if unsafe { libc::pipe2(fds.as_mut_ptr(), libc::O_CLOEXEC) } != 0 || unsafe { libc::pipe2(ready.as_mut_ptr(), libc::O_CLOEXEC) } != 0 {
                    return Err(Failure::inconclusive("pipe2 failed"));
                }
                let pid = unsafe { libc::fork() };
                if pid < 0 {
                    return Err(Failure::inconclusive("fork failed"));
                }
                if pid == 0 {
                    // child: keep exactly this one handle, let go of every inherited copy
                    unsafe { libc::prctl(libc::PR_SET_PDEATHSIG, libc::SIGKILL) };
                    crate::interpose::raw_close(fds[1]);
                    crate::interpose::raw_close(ready[0]);
                    let keep = h.real;
                    self.txs.clear();
                    self.rxs.clear();
                    self.regions.clear();
                    self.sets.clear();
                    self.remotes.clear();
                    // tell the parent that every inherited copy has been let go
                    unsafe { libc::write(ready[1], b"r".as_ptr() as *const libc::c_void, 1) };
                    crate::interpose::raw_close(ready[1]);
                    let mut b = [0u8; 1];
                    loop {
                        let n = unsafe { libc::read(fds[0], b.as_mut_ptr() as *mut libc::c_void, 1) };
                        if n >= 0 || unsafe { *libc::__errno_location() } != libc::EINTR {
                            break;
                        }
                    }
                    drop(keep);
                    unsafe { libc::_exit(0) };
                }
                crate::interpose::raw_close(fds[0]);
                crate::interpose::raw_close(ready[1]);
                // the child inherited a copy of every descriptor: wait until it has closed all but
                // the moved handle, otherwise "the receiver is gone" would not yet be true
                let mut b = [0u8; 1];
                loop {
                    let n = unsafe { libc::read(ready[0], b.as_mut_ptr() as *mut libc::c_void, 1) };
                    if n >= 0 || unsafe { *libc::__errno_location() } != libc::EINTR {
                        break;
                    }
                }
                crate::interpose::raw_close(ready[0]);
                let chan = h.chan;
                drop(h.real); // the parent's copy of the moved handle
                use std::os::unix::io::FromRawFd;
                self.remotes.push(Remote::Process { chan, pid, pipe_w: unsafe { std::fs::File::from_raw_fd(fds[1]) } });
                self.stats.remote_holds += 1;
                self.stats.fork_holds += 1;
                self.trace.push(format!("hold{}", chan));
                Ok(())
            },
            Op::Bystander => {
                if cfg!(feature = "inproc") || self.bystanders.len() >= 2 {
                    return self.skip("bystander");
                }
                let exe = std::env::current_exe().map_err(|e| Failure::inconclusive(e.to_string()))?;
                let mut child = std::process::Command::new(exe)
                    .args(["helper", "sleep"])
                    .stdin(std::process::Stdio::piped())
                    .stdout(std::process::Stdio::piped())
                    .stderr(std::process::Stdio::null())
                    .spawn()
                    .map_err(|e| Failure::inconclusive(format!("spawn bystander: {}", e)))?;
                // wait until the child has exec'ed (it writes one byte): from then on it only holds
                // what was not close-on-exec at the moment of the spawn
                use std::io::Read;
                let mut b = [0u8; 1];
                let _ = child.stdout.as_mut().unwrap().read(&mut b);
                self.bystanders.push(child);
                self.stats.bystanders += 1;
                self.trace.push("bystander".into());
                Ok(())
            },
            Op::Release(s) => {
                if self.remotes.is_empty() {
                    return self.skip("release");
                }
                let i = pick(*s, self.remotes.len());
                let chan = self.release_remote(i)?;
                self.trace.push(format!("release{}", chan));
                Ok(())
            },
            Op::Send { tx, size, tree } => self.op_send(*tx, size, tree),
            Op::Recv { rx, mode } => {
                if self.fd0_before_receives {
                    crate::fdsnap::fd0::free();
                }
                self.op_recv(*rx, *mode)
            },
            Op::RegionNew { len, seed, fill } => {
                if self.regions.len() >= 8 {
                    return self.skip("region:limit");
                }
                let bytes = node::region_bytes(*len, *seed, *fill);
                let real = node::make_region(*len, *seed, *fill);
                if &real[..] != &bytes[..] {
                    wfail!("region:content-differs-at-creation", "region of {} bytes differs from its source right after creation", bytes.len());
                }
                self.regions.push(RegH { len: bytes.len(), hash: payload::fnv64(&bytes), real });
                self.trace.push(format!("region{}", bytes.len()));
                Ok(())
            },
            Op::RegionClone(s) => {
                if self.regions.is_empty() || self.regions.len() >= 8 {
                    return self.skip("regionclone");
                }
                let i = pick(*s, self.regions.len());
                let r = &self.regions[i];
                let c = RegH { len: r.len, hash: r.hash, real: r.real.clone() };
                self.regions.push(c);
                self.trace.push("regionclone".into());
                Ok(())
            },
            Op::RegionDrop(s) => {
                if self.regions.is_empty() {
                    return self.skip("regiondrop");
                }
                let i = pick(*s, self.regions.len());
                self.regions.remove(i);
                self.trace.push("regiondrop".into());
                Ok(())
            },
            Op::RegionCheck(s) => {
                if self.regions.is_empty() {
                    return self.skip("regioncheck");
                }
                let i = pick(*s, self.regions.len());
                let r = &self.regions[i];
                if r.real.len() != r.len || payload::fnv64(&r.real) != r.hash {
                    wfail!("region:content-differs", "held region: expected {} bytes hash {:x}, found {} bytes hash {:x}", r.len, r.hash, r.real.len(), payload::fnv64(&r.real));
                }
                self.trace.push(format!("regionok{}", r.len));
                Ok(())
            },
            Op::SetNew => {
                if self.sets.len() >= 3 {
                    return self.skip("set:limit");
                }
                let real = IpcReceiverSet::new().map_err(|e| Failure::inconclusive(format!("IpcReceiverSet::new: {}", e)))?;
                self.sets.push(SetH { members: vec![], real: Some(real) });
                self.trace.push("setnew".into());
                Ok(())
            },
            Op::SetAdd { set, rx } => {
                let cand: Vec<usize> = (0..self.rxs.len()).filter(|&i| !self.chans[self.rxs[i].chan].bytes).collect();
                if self.sets.is_empty() || cand.is_empty() {
                    return self.skip("setadd");
                }
                let si = pick(*set, self.sets.len());
                let h = self.rxs.remove(cand[pick(*rx, cand.len())]);
                let RealRx::Typed(r) = h.real else { unreachable!() };
                // a third of the members join through the untyped entry point (what the router and
                // the async layer use)
                let real_set = self.sets[si].real.as_mut().unwrap();
                let added = if *rx % 3 == 1 { real_set.add_opaque(r.to_opaque()) } else { real_set.add(r) };
                let id = added.map_err(|e| Failure::new("set:add-failed", format!("add: {}", e)))?;
                if self.sets[si].members.iter().any(|(i, _)| *i == id) {
                    wfail!("set:duplicate-id", "add returned id {} which a live member already has", id);
                }
                self.sets[si].members.push((id, h.chan));
                self.trace.push(format!("setadd{}", h.chan));
                Ok(())
            },
            Op::SetSelect(s) => {
                if self.fd0_before_receives {
                    crate::fdsnap::fd0::free();
                }
                self.op_select(*s)
            },
            Op::SetDrop(s) => {
                if self.sets.is_empty() {
                    return self.skip("setdrop");
                }
                let si = pick(*s, self.sets.len());
                let set = self.sets.remove(si);
                for (_, c) in &set.members {
                    self.kill_rx(*c);
                }
                drop(set.real);
                self.trace.push("setdrop".into());
                Ok(())
            },
            Op::SrvNew => {
                if self.servers.len() >= 3 || self.chans.len() >= self.max_chans + 3 {
                    return self.skip("srv:limit");
                }
                let (srv, name) = IpcOneShotServer::<Node>::new().map_err(|e| Failure::new("server:new-failed", format!("{}", e)))?;
                if self.servers.iter().any(|s| s.name == name) {
                    wfail!("server:duplicate-name", "two live servers share the name {}", name);
                }
                let c = self.new_chan(false);
                self.chans[c].senders = 0;
                self.chans[c].in_server = true;
                self.servers.push(SrvH { chan: c, name, connected: false, real: Some(srv) });
                self.trace.push(format!("srv{}", c));
                Ok(())
            },
            Op::SrvConnect(s) => {
                let cand: Vec<usize> = (0..self.servers.len()).filter(|&i| !self.servers[i].connected).collect();
                if cand.is_empty() || self.txs.len() >= 24 {
                    return self.skip("connect");
                }
                let si = cand[pick(*s, cand.len())];
                let name = self.servers[si].name.clone();
                let tx = IpcSender::<Node>::connect(name).map_err(|e| Failure::new("server:connect-failed", format!("connect to a live server failed: {}", e)))?;
                let c = self.servers[si].chan;
                self.servers[si].connected = true;
                self.chans[c].senders += 1;
                self.txs.push(TxH { chan: c, real: RealTx::Typed(tx) });
                self.trace.push(format!("connect{}", c));
                Ok(())
            },
            Op::SrvAccept(s) => self.op_accept(*s),
            Op::SrvDrop(s) => {
                if self.servers.is_empty() {
                    return self.skip("srvdrop");
                }
                let si = pick(*s, self.servers.len());
                let srv = self.servers.remove(si);
                self.kill_rx(srv.chan);
                drop(srv.real);
                self.trace.push(format!("srvdrop{}", srv.chan));
                Ok(())
            },
        }
    }

    fn op_send(&mut self, tx: u16, size: &Size, tree: &NP) -> Result<(), Failure> {
        if self.txs.is_empty() {
            return self.skip("send:no-sender");
        }
        let i = pick(tx, self.txs.len());
        let c = self.txs[i].chan;
        let tag = self.next_tag;
        let alive = self.chans[c].rx_alive;
        let is_bytes = self.chans[c].bytes;
        let mut target = self.target_size(size);
        if !self.big_ok() || is_bytes && false {
            target = target.min(12000);
        }
        // kernel budget (only matters while the receiver exists and does not read)
        let est_total = target.max(64);
        let cost = self.msg_cost(est_total);
        if alive && (self.chans[c].cost + cost > BUDGET || self.chans[c].queue.len() >= MAX_QUEUED) {
            return self.skip("send:budget");
        }
        self.next_tag += 1;
        if is_bytes {
            let len = target.max(payload::HEADER);
            let data = payload::make(c as u32, 0, tag, len, tag as u64 * 77 + 1);
            let RealTx::Bytes(t) = &self.txs[i].real else { unreachable!() };
            let r = t.send(&data);
            return self.after_send(c, tag, alive, r.map_err(|e| e.to_string()), format!("{:x}", payload::fnv64(&data)), vec![], cost, len > self.caps.f1);
        }
        // typed: bind the endpoint leaves, then pad to the requested serialised size
        let max_items = self.max_items;
        let mut binder = WorldBinder { w: self, target: c, items: vec![], budget_items: max_items, kinds: 0 };
        let inner = node::build(tree, &mut binder);
        let items = std::mem::take(&mut binder.items);
        let kinds = (binder.kinds & 0x3f).count_ones();
        // the sending handle may have moved (a moved handle earlier in `txs` shifts indices): find it again
        let i = match self.txs.iter().position(|t| t.chan == c) {
            Some(i) => i,
            None => {
                // cannot happen: handles of channel c are never candidates for a message on c
                wfail!("harness:sender-vanished", "internal: sender of channel {} vanished during binding", c);
            },
        };
        let mut msg = Node::Pair(Box::new(Node::Tagged { chan: c as u32, sender: 0, seq: tag, body: vec![] }), Box::new(inner));
        let base = bincode_size(&msg);
        if target > base {
            let Node::Pair(t, _) = &mut msg else { unreachable!() };
            let Node::Tagged { body, .. } = &mut **t else { unreachable!() };
            *body = payload::stream(tag as u64, target - base);
        }
        let total = bincode_size(&msg);
        let rendered = node::rendered(&msg);
        for it in &items {
            match it {
                ItemM::Tx(_) => self.stats.endpoint_transfers += 1,
                ItemM::Rx(rc) => {
                    self.stats.receiver_transfers += 1;
                    self.stats.endpoint_transfers += 1;
                    self.stats.backlog_transferred += self.chans[*rc].queue.len() as u32;
                },
                ItemM::Shm { .. } => self.stats.region_transfers += 1,
            }
        }
        self.stats.max_items_in_one_msg = self.stats.max_items_in_one_msg.max(items.len() as u32);
        if kinds >= 2 && items.iter().any(|i| matches!(i, ItemM::Shm { .. })) {
            self.stats.kinds_in_one_msg += 1;
        }
        let RealTx::Typed(t) = &self.txs[i].real else { unreachable!() };
        let r = t.send(msg);
        self.after_send(c, tag, alive, r.map_err(|e| e.to_string()), rendered, items, cost, total > self.caps.f1)
    }

    fn after_send(
        &mut self,
        c: usize,
        tag: u32,
        alive: bool,
        r: Result<(), String>,
        rendered: String,
        items: Vec<ItemM>,
        cost: usize,
        multi: bool,
    ) -> Result<(), Failure> {
        if multi {
            self.stats.multi_packet += 1;
        }
        if alive {
            if let Err(e) = r {
                // un-apply nothing: report
                wfail!("send:failed-on-live-channel", "send #{} on channel {} whose receiver exists failed: {}", tag, c, e);
            }
            if !self.rxs.iter().any(|h| h.chan == c) && !self.sets.iter().any(|s| s.members.iter().any(|(_, m)| *m == c)) && !self.chans[c].in_server {
                self.stats.sends_to_in_transit_rx += 1;
            }
            self.chans[c].queue.push_back(MsgM { tag, rendered, items, cost });
            self.chans[c].cost += cost;
            self.stats.sends_ok += 1;
            self.trace.push(format!("send{}#{}:ok", c, tag));
        } else {
            if r.is_ok() {
                wfail!("send:ok-on-dead-channel", "send #{} on channel {} whose receiver no longer exists anywhere returned Ok", tag, c);
            }
            if multi || !items.is_empty() {
                self.stats.rich_sends_err += 1;
            }
            self.destroy_items(&items);
            self.stats.sends_err += 1;
            self.trace.push(format!("send{}#{}:err", c, tag));
        }
        Ok(())
    }

    /// Hand the embedded endpoints of a received message to the program (model and real side).
    fn adopt(&mut self, c: usize, m: &MsgM, handles: Vec<Handle>) -> Result<(), Failure> {
        if handles.len() != m.items.len() {
            wfail!("recv:attachment-count-differs", "message #{} on channel {}: {} attachments sent, {} received", m.tag, c, m.items.len(), handles.len());
        }
        for (it, h) in m.items.iter().zip(handles) {
            match (it, h) {
                (ItemM::Tx(c2), Handle::Tx(t)) if !self.chans[*c2].bytes => self.txs.push(TxH { chan: *c2, real: RealTx::Typed(t) }),
                (ItemM::Tx(c2), Handle::BTx(t)) if self.chans[*c2].bytes => self.txs.push(TxH { chan: *c2, real: RealTx::Bytes(t) }),
                (ItemM::Rx(c2), Handle::Rx(r)) if !self.chans[*c2].bytes => self.rxs.push(RxH { chan: *c2, real: RealRx::Typed(r) }),
                (ItemM::Rx(c2), Handle::BRx(r)) if self.chans[*c2].bytes => self.rxs.push(RxH { chan: *c2, real: RealRx::Bytes(r) }),
                (ItemM::Shm { len, hash }, Handle::Shm(r)) => {
                    if r.len() != *len || payload::fnv64(&r) != *hash {
                        wfail!("recv:region-content-differs", "message #{}: region of {} bytes (hash {:x}) arrived as {} bytes (hash {:x})", m.tag, len, hash, r.len(), payload::fnv64(&r));
                    }
                    if self.regions.len() < 8 {
                        self.regions.push(RegH { len: *len, hash: *hash, real: r });
                    }
                },
                (it, _) => wfail!("recv:attachment-kind-differs", "message #{} on channel {}: attachment {:?} arrived as a different kind", m.tag, c, it),
            }
        }
        Ok(())
    }

    fn check_typed(&mut self, c: usize, got: Node) -> Result<u32, Failure> {
        let m = match self.chans[c].queue.pop_front() {
            Some(m) => m,
            None => wfail!("recv:message-from-empty-channel", "channel {} delivered {} although the model queue is empty", c, node::rendered(&got)),
        };
        self.chans[c].cost -= m.cost;
        let r = node::rendered(&got);
        if r != m.rendered {
            wfail!("recv:value-differs", "channel {}: expected message #{} = {} but received {}", c, m.tag, clip(&m.rendered), clip(&r));
        }
        let mut hs = vec![];
        node::take_handles(got, &mut hs);
        self.adopt(c, &m, hs)?;
        Ok(m.tag)
    }

    fn op_recv(&mut self, rx: u16, mode: u8) -> Result<(), Failure> {
        if self.rxs.is_empty() {
            return self.skip("recv:no-receiver");
        }
        let i = pick(rx, self.rxs.len());
        let c = self.rxs[i].chan;
        let nonempty = !self.chans[c].queue.is_empty();
        let connected = self.chans[c].senders > 0;
        // a blocking receive is only issued when the model says it returns
        let mut mode = mode % 4;
        if mode == 0 && !nonempty && connected {
            mode = 1;
        }
        if self.chans[c].bytes && mode >= 2 {
            mode = 1;
        }
        #[derive(Debug)]
        enum R {
            Typed(Node),
            Bytes(Vec<u8>),
            Empty,
            Disc,
            Other(String),
        }
        let h = self.rxs.remove(i);
        let (real, res) = match h.real {
            RealRx::Typed(r) => {
                let out = sandbox::watched(move || {
                    let x = match mode {
                        0 => match r.recv() {
                            Ok(v) => R::Typed(v),
                            Err(IpcError::Disconnected) => R::Disc,
                            Err(e) => R::Other(format!("{:?}", e)),
                        },
                        _ => {
                            let q = match mode {
                                1 => r.try_recv(),
                                2 => r.try_recv_timeout(Duration::from_millis(0)),
                                _ => r.try_recv_timeout(Duration::from_millis(1)),
                            };
                            match q {
                                Ok(v) => R::Typed(v),
                                Err(TryRecvError::Empty) => R::Empty,
                                Err(TryRecvError::IpcError(IpcError::Disconnected)) => R::Disc,
                                Err(TryRecvError::IpcError(e)) => R::Other(format!("{:?}", e)),
                            }
                        },
                    };
                    (r, x)
                });
                match out {
                    Ok((r, x)) => (RealRx::Typed(r), x),
                    Err(hg) => return Err(sandbox::hang_failure("recv:hangs", &format!("receive (mode {}) on channel {} (model: queue nonempty={}, connected={})", mode, c, nonempty, connected), hg)),
                }
            },
            RealRx::Bytes(r) => {
                let out = sandbox::watched(move || {
                    let x = match mode {
                        0 => match r.recv() {
                            Ok(v) => R::Bytes(v),
                            Err(IpcError::Disconnected) => R::Disc,
                            Err(e) => R::Other(format!("{:?}", e)),
                        },
                        _ => match r.try_recv() {
                            Ok(v) => R::Bytes(v),
                            Err(TryRecvError::Empty) => R::Empty,
                            Err(TryRecvError::IpcError(IpcError::Disconnected)) => R::Disc,
                            Err(TryRecvError::IpcError(e)) => R::Other(format!("{:?}", e)),
                        },
                    };
                    (r, x)
                });
                match out {
                    Ok((r, x)) => (RealRx::Bytes(r), x),
                    Err(hg) => return Err(sandbox::hang_failure("recv:hangs", &format!("bytes receive (mode {}) on channel {}", mode, c), hg)),
                }
            },
        };
        self.rxs.insert(i, RxH { chan: c, real });
        let modes = ["recv", "try_recv", "try_recv_timeout(0)", "try_recv_timeout(1ms)"][mode as usize];
        match res {
            R::Typed(v) => {
                if !nonempty {
                    wfail!("recv:message-from-empty-channel", "{} on channel {} returned {} although every sent message was already delivered", modes, c, clip(&node::rendered(&v)));
                }
                let tag = self.check_typed(c, v)?;
                self.trace.push(format!("recv{}:#{}", c, tag));
            },
            R::Bytes(v) => {
                let m = match self.chans[c].queue.pop_front() {
                    Some(m) => m,
                    None => wfail!("recv:message-from-empty-channel", "{} on bytes channel {} returned {} bytes although the model queue is empty", modes, c, v.len()),
                };
                self.chans[c].cost -= m.cost;
                if format!("{:x}", payload::fnv64(&v)) != m.rendered {
                    wfail!("recv:value-differs", "bytes channel {}: message #{} arrived altered ({} bytes; parse: {:?})", c, m.tag, v.len(), payload::parse(&v).map(|p| p.seq));
                }
                self.trace.push(format!("recv{}:#{}", c, m.tag));
            },
            R::Empty => {
                if nonempty {
                    wfail!("recv:empty-but-message-pending", "{} on channel {} reported Empty although message #{} was completely sent before the call", modes, c, self.chans[c].queue[0].tag);
                }
                if !connected {
                    wfail!("recv:empty-but-disconnected", "{} on channel {} reported Empty although no sender handle exists any more", modes, c);
                }
                self.stats.empties_seen += 1;
                self.trace.push(format!("recv{}:empty", c));
            },
            R::Disc => {
                if nonempty {
                    wfail!("recv:disconnected-before-backlog", "{} on channel {} reported Disconnected although message #{} is still undelivered", modes, c, self.chans[c].queue[0].tag);
                }
                if connected {
                    wfail!("recv:false-disconnected", "{} on channel {} reported Disconnected although {} sender handle(s) still exist", modes, c, self.chans[c].senders);
                }
                self.stats.disconnects_seen += 1;
                self.trace.push(format!("recv{}:disc", c));
            },
            R::Other(e) => wfail!("recv:unexpected-error", "{} on channel {} failed with {}", modes, c, e),
        }
        Ok(())
    }

    fn op_select(&mut self, s: u16) -> Result<(), Failure> {
        if self.sets.is_empty() {
            return self.skip("select:no-set");
        }
        let si = pick(s, self.sets.len());
        // pending events per member according to the model
        let mut pending: usize = 0;
        for (_, c) in &self.sets[si].members {
            pending += self.chans[*c].queue.len();
            if self.chans[*c].senders == 0 {
                pending += 1;
            }
        }
        if pending == 0 {
            return self.skip("select:would-block");
        }
        self.stats.selects += 1;
        let mut per_member: std::collections::BTreeMap<usize, Vec<String>> = Default::default();
        let mut rounds = 0;
        // Collect the raw events first; the order in which one select call reports *different*
        // members is unspecified, so they are processed per member afterwards (member order).
        let mut raw: Vec<(usize, u64, Option<ipc::OpaqueIpcMessage>)> = vec![];
        while raw.len() < pending {
            rounds += 1;
            let mut set = self.sets[si].real.take().unwrap();
            let out = sandbox::watched(move || {
                let r = set.select();
                (set, r)
            });
            let (set, res) = match out {
                Ok(x) => x,
                Err(hg) => return Err(sandbox::hang_failure("select:hangs", &format!("select with {} event(s) still pending in the model (round {})", pending - raw.len(), rounds), hg)),
            };
            self.sets[si].real = Some(set);
            let events = res.map_err(|e| Failure::new("select:error", format!("select failed: {}", e)))?;
            for ev in events {
                match ev {
                    IpcSelectionResult::MessageReceived(id, msg) => {
                        let Some(&(_, c)) = self.sets[si].members.iter().find(|(i, _)| *i == id) else {
                            wfail!("select:unknown-id", "select reported a message for id {} which no live member has", id);
                        };
                        raw.push((c, id, Some(msg)));
                    },
                    IpcSelectionResult::ChannelClosed(id) => {
                        let Some(&(_, c)) = self.sets[si].members.iter().find(|(i, _)| *i == id) else {
                            wfail!("select:unknown-id", "select reported closure of id {} which no live member has", id);
                        };
                        raw.push((c, id, None));
                    },
                }
            }
            if rounds > 4096 {
                wfail!("select:no-progress", "select returned {} times without delivering the {} pending event(s)", rounds, pending);
            }
        }
        raw.sort_by_key(|(c, _, _)| *c); // stable: per-member order is kept
        for (c, id, ev) in raw {
            match ev {
                Some(msg) => {
                    if !self.sets[si].members.iter().any(|(i, _)| *i == id) {
                        wfail!("select:event-after-closed", "member channel {} delivered a message after it was reported closed", c);
                    }
                    let v: Node = msg.to().map_err(|e| Failure::new("select:decode-failed", format!("message of member {} does not decode: {}", c, e)))?;
                    if self.chans[c].queue.is_empty() {
                        wfail!("select:message-from-empty-member", "select reported {} for channel {} although its queue is empty in the model", clip(&node::rendered(&v)), c);
                    }
                    let tag = self.check_typed(c, v)?;
                    per_member.entry(c).or_default().push(format!("#{}", tag));
                    self.stats.select_events += 1;
                },
                None => {
                    let Some(pos) = self.sets[si].members.iter().position(|(i, _)| *i == id) else {
                        wfail!("select:closed-twice", "member channel {} was reported closed twice", c);
                    };
                    if !self.chans[c].queue.is_empty() {
                        wfail!("select:closed-before-backlog", "member channel {} reported closed with {} message(s) undelivered", c, self.chans[c].queue.len());
                    }
                    if self.chans[c].senders > 0 {
                        wfail!("select:false-closed", "member channel {} reported closed although {} sender handle(s) exist", c, self.chans[c].senders);
                    }
                    self.sets[si].members.remove(pos);
                    self.kill_rx(c);
                    per_member.entry(c).or_default().push("closed".into());
                    self.stats.select_events += 1;
                    self.stats.disconnects_seen += 1;
                },
            }
        }
        let mut line = String::from("select:");
        for (c, evs) in per_member {
            line.push_str(&format!("[{}:{}]", c, evs.join(",")));
        }
        self.trace.push(line);
        Ok(())
    }

    fn op_accept(&mut self, s: u16) -> Result<(), Failure> {
        // only servers whose accept returns according to the model
        let cand: Vec<usize> = (0..self.servers.len())
            .filter(|&i| {
                let sv = &self.servers[i];
                sv.connected && (!self.chans[sv.chan].queue.is_empty() || self.chans[sv.chan].senders == 0)
            })
            .collect();
        if cand.is_empty() {
            return self.skip("accept:would-block");
        }
        let si = cand[pick(s, cand.len())];
        let mut srv = self.servers.remove(si);
        let c = srv.chan;
        let real = srv.real.take().unwrap();
        let out = sandbox::watched(move || real.accept());
        let res = match out {
            Ok(r) => r,
            Err(hg) => {
                return Err(sandbox::hang_failure(
                    "accept:hangs",
                    &format!("accept on a server whose client connected ({} message(s) queued, {} sender(s) left)", self.chans[c].queue.len(), self.chans[c].senders),
                    hg,
                ))
            },
        };
        self.stats.accepts += 1;
        self.chans[c].in_server = false;
        if self.chans[c].queue.is_empty() {
            // client left without sending anything: accept must fail, the rendezvous is over
            if let Ok((_, v)) = res {
                wfail!("accept:message-from-nowhere", "accept returned {} although the client never sent anything", clip(&node::rendered(&v)));
            }
            self.kill_rx(c);
            self.trace.push(format!("accept{}:err", c));
            return Ok(());
        }
        match res {
            Ok((rx, v)) => {
                let tag = self.check_typed(c, v)?;
                self.rxs.push(RxH { chan: c, real: RealRx::Typed(rx) });
                self.trace.push(format!("accept{}:#{}", c, tag));
                Ok(())
            },
            Err(e) => wfail!("accept:failed", "accept failed although message #{} was queued by the client: {}", self.chans[c].queue[0].tag, e),
        }
    }

    fn release_remote(&mut self, i: usize) -> Result<usize, Failure> {
        let r = self.remotes.remove(i);
        let chan = match r {
            Remote::Thread { chan, go, jh } => {
                let _ = go.send(());
                jh.join().map_err(|_| Failure::new("drop:panicked", "dropping a sender on its holder thread panicked"))?;
                chan
            },
            Remote::Process { chan, pid, pipe_w } => {
                use std::io::Write;
                let mut p = pipe_w;
                let _ = p.write_all(b"x");
                drop(p);
                let mut st = 0;
                loop {
                    let r = unsafe { libc::waitpid(pid, &mut st, 0) };
                    if r == pid || (r < 0 && unsafe { *libc::__errno_location() } != libc::EINTR) {
                        break;
                    }
                }
                if !(libc::WIFEXITED(st) && libc::WEXITSTATUS(st) == 0) {
                    return Err(Failure::new("holder:abnormal-exit", format!("process holding a sender of channel {} ended with wait status {:#x}", chan, st)));
                }
                chan
            },
        };
        self.chans[chan].senders -= 1;
        Ok(chan)
    }

    /// Let every remote holder go (end of program).
    pub fn release_all(&mut self) -> Result<(), Failure> {
        while !self.remotes.is_empty() {
            self.release_remote(0)?;
        }
        Ok(())
    }

    /// Identity probes (3.4): a fresh message through every held sender, then drain every held
    /// receiver and set; the model predicts where each nonce comes out.
    pub fn probe_all(&mut self) -> Result<(), Failure> {
        let n = self.txs.len();
        for i in 0..n {
            let raw = (((i as u32) << 16) / n.max(1) as u32) as u16;
            // recompute selector so that pick(raw, n) == i
            let mut sel = raw;
            while pick(sel, n) < i {
                sel += 1;
            }
            self.op_send(sel, &Size::Tiny, &NP::U32(0xfeed))?;
        }
        self.drain_all()
    }

    pub fn drain_all(&mut self) -> Result<(), Failure> {
        // held receivers first (may hand out more receivers), then sets; repeat until stable
        let mut guard = 0;
        loop {
            guard += 1;
            let mut progressed = false;
            let mut i = 0;
            while i < self.rxs.len() {
                let c = self.rxs[i].chan;
                while !self.chans[c].queue.is_empty() {
                    let n = self.rxs.len();
                    let mut sel = (((i as u32) << 16) / n as u32) as u16;
                    while pick(sel, n) < i {
                        sel += 1;
                    }
                    self.op_recv(sel, 1)?;
                    progressed = true;
                }
                i += 1;
            }
            for si in 0..self.sets.len() {
                let pending: usize = self.sets[si].members.iter().map(|(_, c)| self.chans[*c].queue.len() + (self.chans[*c].senders == 0) as usize).sum();
                if pending > 0 {
                    let n = self.sets.len();
                    let mut sel = (((si as u32) << 16) / n as u32) as u16;
                    while pick(sel, n) < si {
                        sel += 1;
                    }
                    self.op_select(sel)?;
                    progressed = true;
                }
            }
            if !progressed || guard > 64 {
                break;
            }
        }
        // final state of every held receiver: Empty or Disconnected as the model says
        for i in 0..self.rxs.len() {
            let n = self.rxs.len();
            let mut sel = (((i as u32) << 16) / n as u32) as u16;
            while pick(sel, n) < i {
                sel += 1;
            }
            self.op_recv(sel, 1)?;
        }
        Ok(())
    }

    pub fn live_channels(&self) -> usize {
        self.chans.len()
    }
}

fn clip(s: &str) -> String {
    if s.len() <= 160 {
        s.to_string()
    } else {
        let mut cut = 160;
        while !s.is_char_boundary(cut) {
            cut -= 1;
        }
        format!("{}…({} chars)", &s[..cut], s.len())
    }
}

// ---- generators -----------------------------------------------------------------------------------

use proptest::prelude::*;

pub fn ep_leaf() -> BoxedStrategy<NP> {
    prop_oneof![
        6 => (prop_oneof![Just(EpKind::Tx), Just(EpKind::Rx), Just(EpKind::OTx), Just(EpKind::ORx), Just(EpKind::BTx), Just(EpKind::BRx)], any::<u16>())
            .prop_map(|(kind, sel)| NP::Ep { kind, sel }),
        // few seeds and fill bytes: two regions of one value often have *equal contents*
        2 => (prop_oneof![Just(0u32), Just(1), 1u32..5000, Just(4095), Just(4096), Just(4097)], prop_oneof![2 => 0u64..2, 1 => any::<u64>()], proptest::option::weighted(0.3, prop_oneof![2 => Just(0u8), 1 => any::<u8>()]))
            .prop_map(|(len, seed, fill)| NP::Shm { len, seed, fill }),
        3 => node::data_leaf(),
    ]
    .boxed()
}

pub fn size_strategy() -> BoxedStrategy<Size> {
    prop_oneof![
        5 => Just(Size::Tiny),
        3 => any::<u16>().prop_map(Size::Small),
        1 => Just(Size::OnePacket),
        1 => Just(Size::OverOne),
        2 => (2u8..=6).prop_map(Size::Multi),
    ]
    .boxed()
}

pub fn msg_tree() -> BoxedStrategy<NP> {
    prop_oneof![
        2 => Just(NP::Unit),
        3 => ep_leaf(),
        4 => node::tree(ep_leaf(), 3, 12),
    ]
    .boxed()
}

/// Operation strategy; `w` = relative weights of the groups
/// [create, clone, droptx, droprx, send, recv, region, set, server, remote holders]
pub fn op_strategy(w: [u32; 10]) -> BoxedStrategy<Op> {
    let all: Vec<(u32, BoxedStrategy<Op>)> = vec![
        (w[0] * 3, Just(Op::NewChan).boxed()),
        (w[0], Just(Op::NewBytesChan).boxed()),
        (w[1], any::<u16>().prop_map(Op::CloneTx).boxed()),
        (w[2], any::<u16>().prop_map(Op::DropTx).boxed()),
        (w[3], any::<u16>().prop_map(Op::DropRx).boxed()),
        (w[4], (any::<u16>(), size_strategy(), msg_tree()).prop_map(|(tx, size, tree)| Op::Send { tx, size, tree }).boxed()),
        (w[5], (any::<u16>(), 0u8..4).prop_map(|(rx, mode)| Op::Recv { rx, mode }).boxed()),
        (
            w[6],
            prop_oneof![
                (0u32..9000, any::<u64>(), proptest::option::weighted(0.3, any::<u8>())).prop_map(|(len, seed, fill)| Op::RegionNew { len, seed, fill }),
                any::<u16>().prop_map(Op::RegionClone),
                any::<u16>().prop_map(Op::RegionDrop),
                any::<u16>().prop_map(Op::RegionCheck),
            ]
            .boxed(),
        ),
        (
            w[7],
            prop_oneof![
                1 => Just(Op::SetNew),
                3 => (any::<u16>(), any::<u16>()).prop_map(|(set, rx)| Op::SetAdd { set, rx }),
                4 => any::<u16>().prop_map(Op::SetSelect),
                1 => any::<u16>().prop_map(Op::SetDrop),
            ]
            .boxed(),
        ),
        (
            w[8],
            prop_oneof![
                2 => Just(Op::SrvNew),
                3 => any::<u16>().prop_map(Op::SrvConnect),
                3 => any::<u16>().prop_map(Op::SrvAccept),
                1 => any::<u16>().prop_map(Op::SrvDrop),
            ]
            .boxed(),
        ),
        (
            w[9],
            prop_oneof![
                2 => any::<u16>().prop_map(Op::ThreadHold),
                2 => any::<u16>().prop_map(Op::ForkHold),
                3 => any::<u16>().prop_map(Op::Release),
                2 => any::<u16>().prop_map(Op::DropTxElsewhere),
                1 => Just(Op::Bystander),
            ]
            .boxed(),
        ),
    ];
    proptest::strategy::Union::new_weighted(all.into_iter().filter(|(w, _)| *w > 0).collect()).boxed()
}

const LAST: u16 = 0xffff;

/// Short scenarios that make the deep states (accept after traffic, select with several ready
/// members, receiver transfer with backlog) likely; selectors 0xffff address the newest handle.
fn snippet() -> BoxedStrategy<Vec<Op>> {
    let send_last = (size_strategy(), msg_tree()).prop_map(|(size, tree)| Op::Send { tx: LAST, size, tree });
    prop_oneof![
        // server: create, connect, 0..3 sends through the connected sender, maybe drop it, accept
        (proptest::collection::vec(send_last.clone(), 0..4), any::<bool>(), any::<bool>()).prop_map(|(sends, drop_tx, accept)| {
            let mut v = vec![Op::SrvNew, Op::SrvConnect(LAST)];
            v.extend(sends);
            if drop_tx {
                v.push(Op::DropTx(LAST));
            }
            if accept {
                v.push(Op::SrvAccept(LAST));
            }
            v
        }),
        // set: new set, add 1..4 receivers, some traffic, select
        (1usize..5, proptest::collection::vec((any::<u16>(), size_strategy(), msg_tree()), 0..6), any::<u16>()).prop_map(|(adds, sends, d)| {
            let mut v = vec![Op::SetNew];
            for i in 0..adds {
                v.push(Op::SetAdd { set: LAST, rx: (i as u16).wrapping_mul(21845) });
            }
            for (tx, size, tree) in sends {
                v.push(Op::Send { tx, size, tree });
            }
            if d & 3 == 0 {
                v.push(Op::DropTx(d));
            }
            v.push(Op::SetSelect(LAST));
            v
        }),
        // receiver transfer with backlog: new channel, k sends on it, then send its receiver somewhere
        (0usize..5, any::<u16>(), size_strategy()).prop_map(|(k, tx, size)| {
            let mut v = vec![Op::NewChan];
            for _ in 0..k {
                v.push(Op::Send { tx: LAST, size: Size::Tiny, tree: NP::Unit });
            }
            v.push(Op::Send { tx, size, tree: NP::Ep { kind: EpKind::Rx, sel: LAST } });
            v
        }),
        // more messages on one set member than any per-event cap, then select, then silence
        (33usize..47, any::<bool>()).prop_map(|(k, drop_tx)| {
            let mut v = vec![Op::NewChan, Op::SetNew, Op::SetAdd { set: LAST, rx: LAST }];
            for _ in 0..k {
                v.push(Op::Send { tx: LAST, size: Size::Tiny, tree: NP::Unit });
            }
            if drop_tx {
                v.push(Op::DropTx(LAST));
            }
            v.push(Op::SetSelect(LAST));
            v
        }),
        // last sender travels inside a message while no handle is held
        (any::<u16>(),).prop_map(|(tx,)| vec![Op::NewChan, Op::Send { tx, size: Size::Tiny, tree: NP::Ep { kind: EpKind::Tx, sel: LAST } }]),
    ]
    .boxed()
}

/// Program strategy: single operations and snippets, flattened and cut to `max_len` operations.
pub fn program_strategy(w: [u32; 10], snippet_weight: u32, max_len: usize) -> BoxedStrategy<Vec<Op>> {
    let chunk = prop_oneof![
        12 => op_strategy(w).prop_map(|o| vec![o]),
        snippet_weight => snippet(),
    ];
    proptest::collection::vec(chunk, 1..max_len)
        .prop_map(move |chunks| {
            let mut v: Vec<Op> = chunks.into_iter().flatten().collect();
            v.truncate(max_len);
            v
        })
        .boxed()
}
