#!/usr/bin/env python3
"""Regenerate MANIFEST.json from propcfg.py (run after adding/changing a property's plan)."""
import json, os, sys
sys.path.insert(0, os.path.dirname(os.path.abspath(__file__)))
from propcfg import PROPS
props = [json.loads(l) for l in open('/verif/properties.jsonl')]
checks, na = [], []
for p in props:
    pid = p['id']
    c = PROPS.get(pid)
    if not c or c.get('not_applicable'):
        na.append(dict(property_id=pid, reason=(c or {}).get('not_applicable', 'check not built yet (work in progress, see DESIGN.md section 4 for the plan)')))
        continue
    m = c['meta']
    checks.append(dict(
        property_id=pid,
        quick_cmd='./check.py %s --tier quick' % pid,
        thorough_cmd='./check.py %s --tier thorough' % pid,
        evidence_file='/verif/evidence/%s.json' % pid,
        replay_cmd_template='./check.py %s --replay {path}' % pid,
        engine='ipcv',
        level_claimed=dict(category=m['level'], text=m['claim'], design_ref='DESIGN.md section 4, %s' % pid),
        level_note=m['note'],
        technique=m['technique'],
    ))
man = dict(
    version=1,
    setup_cmd='./check.py --build-all',
    hooks=dict(
        guard='ipc_channel_verif',
        enable='none needed: all observation and control points are the public API and the libc boundary (link-time interposition inside the harness binary); checks build /repo as a path dependency of /verif/harness',
        baseline_off_cmd='cd /repo && cargo test --workspace --no-fail-fast --offline',
        source_commits=[],
        add_only=True,
    ),
    engines=[dict(name='ipcv', path='/verif/harness', serves_properties=[c['property_id'] for c in checks],
                  kind_free_text='Rust harness (proptest TestRunner with fixed seeds, enumerated domains, libc-boundary interposition for fault/schedule/config control, forked sacrificial processes); orchestrated by check.py, which shards jobs over worker processes and merges their reports into the evidence file')],
    checks=checks,
    not_applicable=na,
    notes='Every check rebuilds the needed harness flavours from the current /repo working tree (cargo path dependency), honours VERIF_SEED and VERIF_TIER, and rewrites its evidence file. Exit 2 = inconclusive infrastructure problem (never reported as a violation).',
)
json.dump(man, open('/verif/MANIFEST.json', 'w'), indent=1)
print('checks:', [c['property_id'] for c in checks]); print('not_applicable:', [n['property_id'] for n in na])
