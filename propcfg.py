"""Per-property job plans (which build flavours, which process-level parameters, how many shards)
and evidence metadata (level, non-trivial rule, assumptions).  Work per tier is fixed by case counts
and enumerated domains, never by a time quota."""

COMMON_ASSUMPTIONS = [
    "Linux unix back-end (SOCK_SEQPACKET), its memfd variant and the in-process back-end only; macOS and Windows modules cannot be built here",
    "kernel SOCK_SEQPACKET keeps packet boundaries and per-socket FIFO order; SCM_RIGHTS descriptors in flight are released when the carrying socket is closed",
    "search, not proof: absence of a violation holds only for the cases generated/enumerated in this run",
]


def sndbuf_list(tier):
    q = [4096] + list(range(4097, 4112)) + [8192, 65536, 0]
    if tier == "thorough":
        # 0 = system default; further generated values are drawn deterministically
        extra = [4096 + ((i * 2654435761) % (212992 - 4096)) for i in range(1, 120)]
        return q + extra
    return q


def c01_jobs(tier):
    jobs = []
    for sb in sndbuf_list(tier):
        p = {"sndbuf": str(sb)} if sb else {}
        cases = 400 if sb in (4096, 0) else 120
        if tier == "thorough":
            cases = 6000 if sb in (4096, 8192, 0) else 400
        jobs.append(dict(build="os", params=dict(p, cases=str(cases))))
    for sb in (4096, 0):
        p = {"sndbuf": str(sb)} if sb else {}
        jobs.append(dict(build="memfd", params=dict(p, cases="300" if tier == "quick" else "4000")))
    jobs.append(dict(build="inproc", params=dict(cases="400" if tier == "quick" else "6000")))
    if tier == "thorough":
        for real in (2304, 4096, 16384):
            jobs.append(dict(build="os", params={"real_sndbuf": str(real), "cases": "1500"}))
        jobs.append(dict(build="os", params={"big": "1", "cases": "40", "max_exp": "25"}))
    return jobs


def c19_jobs(tier):
    jobs = []
    shards = 2 if tier == "quick" else 8
    cases = "3000" if tier == "quick" else "60000"
    for sb in (4096, 0):
        p = {"sndbuf": str(sb)} if sb else {}
        p = dict(p, cases=cases if sb else str(int(cases) // 3))
        for b in ("os", "memfd", "inproc"):
            jobs.append(dict(build=b, params=p, shards=shards))
    return jobs


PROPS = {
    "C01": dict(
        jobs=c01_jobs,
        meta=dict(
            level="exploration",
            technique="property-based round-trip testing (proptest) with enumerated boundary lengths, one process per interposed SO_SNDBUF configuration",
            claim="Generated and enumerated payloads/values are sent through the real crate and compared with what arrives (round-trip oracle, follow-on message intact, clean disconnect). Boundary lengths are enumerated completely per configuration; everything else is sampled. This is the level a round-trip law over an unbounded input domain admits by testing.",
            note="Trusts the harness's own comparison (canonical rendering, floats by bits) and the observed packet capacities used to place boundaries; SO_SNDBUF is varied by lying at the getsockopt boundary.",
            rule="cases = byte payloads (lengths: tiny set, every length within +/-16 of each k x packet-capacity boundary k=1..4 enumerated, log-uniform up to the tier maximum) and serde value trees/static types, one process per reported SO_SNDBUF; non-trivial = payload of >=2 packets, or within +/-16 of a boundary, or a typed value with >=3 levels of nesting containing a map/struct/float; distinct = distinct (build, params, canonical JSON of the case)",
            exhaustive="all 132 lengths within +/-16 of the four packet-capacity boundaries, per send-buffer configuration, on the bytes channel",
            assumptions=COMMON_ASSUMPTIONS + ["the value reported for SO_SNDBUF is varied by interposing getsockopt (kernel buffers keep their real size) except in the real_sndbuf jobs of the thorough tier"],
        ),
    ),
    "C19": dict(
        jobs=c19_jobs,
        cross_build=True,
        meta=dict(
            level="exploration",
            technique="model-based differential testing: generated single-threaded API programs run in lock-step with an ideal FIFO world model on three builds, traces compared across builds",
            claim="Each generated program (<=60 operations over <=6 channels plus one-shot servers, receiver sets and regions) is executed by the OS, memfd and in-process builds side by side with an executable model of ideal unbounded FIFO channels; every observable result (values, order, Empty, Disconnected, send Ok/Err, select events per member, accept results, attachment identity via probes) is compared with the model at once and the normalised traces are compared across builds. Sampling of the program space, not a proof.",
            note="Programs are constructed so that the model defines every outcome (no moved-out receiver use, no call that would block, kernel-buffer budget respected, <=8 attachments per message, one connect per server, acyclic channel families). The model itself is trusted; select batches are flattened per member.",
            rule="cases = generated programs (vector of operations with index selectors, shrinkable); non-trivial = the executed program used >=3 channels, transferred at least one endpoint inside a message and observed at least one disconnection; distinct = distinct (build, params, canonical JSON of the program)",
            assumptions=COMMON_ASSUMPTIONS + ["the reference model of section 3.3 of DESIGN.md is the specification of 'ideal unbounded FIFO channel'", "release of in-flight descriptors is synchronous with the close that destroys the carrying queue (measured in the spike, relied on for exact predictions)"],
        ),
    ),
}
