"""Per-property job plans (which build flavours, which process-level parameters, how many shards)
and evidence metadata (level, non-trivial rule, assumptions).  Work per tier is fixed by case counts
and enumerated domains, never by a time quota."""

COMMON_ASSUMPTIONS = [
    "Linux unix back-end (SOCK_SEQPACKET), its memfd variant and the in-process back-end only; macOS and Windows modules cannot be built here",
    "kernel SOCK_SEQPACKET keeps packet boundaries and per-socket FIFO order; SCM_RIGHTS descriptors in flight are released when the carrying socket is closed",
    "search, not proof: absence of a violation holds only for the cases generated/enumerated in this run",
]


def sndbuf_list(tier):
    q = [4096] + list(range(4097, 4112)) + [8192, 65536, 0]
    if tier == "thorough":
        # 0 = system default; further generated values are drawn deterministically
        extra = [4096 + ((i * 2654435761) % (212992 - 4096)) for i in range(1, 120)]
        return q + extra
    return q


def c01_jobs(tier):
    jobs = []
    for sb in sndbuf_list(tier):
        p = {"sndbuf": str(sb)} if sb else {}
        cases = 400 if sb in (4096, 0) else 120
        if tier == "thorough":
            cases = 6000 if sb in (4096, 8192, 0) else 400
        jobs.append(dict(build="os", params=dict(p, cases=str(cases))))
    for sb in (4096, 0):
        p = {"sndbuf": str(sb)} if sb else {}
        jobs.append(dict(build="memfd", params=dict(p, cases="300" if tier == "quick" else "4000")))
    jobs.append(dict(build="inproc", params=dict(cases="400" if tier == "quick" else "6000")))
    if tier == "thorough":
        for real in (2304, 4096, 16384):
            jobs.append(dict(build="os", params={"real_sndbuf": str(real), "cases": "1500"}))
        jobs.append(dict(build="os", params={"big": "1", "cases": "40", "max_exp": "25"}))
    return jobs


def c19_jobs(tier):
    jobs = [dict(fuzz="program", runs=60000, max_len=300, procs=8)] if tier == "thorough" else []
    shards = 2 if tier == "quick" else 8
    cases = "3000" if tier == "quick" else "60000"
    for sb in (4096, 0):
        p = {"sndbuf": str(sb)} if sb else {}
        p = dict(p, cases=cases if sb else str(int(cases) // 3))
        for b in ("os", "memfd", "inproc"):
            jobs.append(dict(build=b, params=p, shards=shards))
    return jobs


def world_jobs(builds, quick_cases, thorough_cases, shards_q=2, shards_t=8, default_too=True):
    def jobs(tier):
        out = []
        cases = quick_cases if tier == "quick" else thorough_cases
        shards = shards_q if tier == "quick" else shards_t
        for b in builds:
            out.append(dict(build=b, params={"sndbuf": "4096", "cases": str(cases)}, shards=shards))
            if default_too and b != "inproc":
                out.append(dict(build=b, params={"cases": str(max(cases // 4, 50))}, shards=max(shards // 2, 1)))
        return out
    return jobs


def M(level, technique, claim, note, rule, extra_assumptions=(), exhaustive=None):
    d = dict(level=level, technique=technique, claim=claim, note=note, rule=rule, assumptions=COMMON_ASSUMPTIONS + list(extra_assumptions))
    if exhaustive:
        d["exhaustive"] = exhaustive
    return d


MODEL_ASSUMPTION = "the reference world model of DESIGN.md section 3.3 (acyclic channel families, eager destruction of everything reachable only through a dropped receiver) is the specification"

PROPS = {
    "C01": dict(
        jobs=c01_jobs,
        meta=dict(
            level="exploration",
            technique="property-based round-trip testing (proptest) with enumerated boundary lengths, one process per interposed SO_SNDBUF configuration",
            claim="Generated and enumerated payloads/values are sent through the real crate and compared with what arrives (round-trip oracle, follow-on message intact, clean disconnect). Boundary lengths are enumerated completely per configuration; everything else is sampled. This is the level a round-trip law over an unbounded input domain admits by testing.",
            note="Trusts the harness's own comparison (canonical rendering, floats by bits) and the observed packet capacities used to place boundaries; SO_SNDBUF is varied by lying at the getsockopt boundary.",
            rule="cases = byte payloads (lengths: tiny set, every length within +/-16 of each k x packet-capacity boundary k=1..4 enumerated, log-uniform up to the tier maximum) and serde value trees/static types, one process per reported SO_SNDBUF; non-trivial = payload of >=2 packets, or within +/-16 of a boundary, or a typed value with >=3 levels of nesting containing a map/struct/float; distinct = distinct (build, params, canonical JSON of the case)",
            exhaustive="all 132 lengths within +/-16 of the four packet-capacity boundaries, per send-buffer configuration, on the bytes channel",
            assumptions=COMMON_ASSUMPTIONS + ["the value reported for SO_SNDBUF is varied by interposing getsockopt (kernel buffers keep their real size) except in the real_sndbuf jobs of the thorough tier"],
        ),
    ),
    "C19": dict(
        fuzz_target="program",
        jobs=c19_jobs,
        cross_build=True,
        meta=dict(
            level="exploration",
            technique="model-based differential testing: generated single-threaded API programs run in lock-step with an ideal FIFO world model on three builds, traces compared across builds",
            claim="Each generated program (<=60 operations over <=6 channels plus one-shot servers, receiver sets and regions) is executed by the OS, memfd and in-process builds side by side with an executable model of ideal unbounded FIFO channels; every observable result (values, order, Empty, Disconnected, send Ok/Err, select events per member, accept results, attachment identity via probes) is compared with the model at once and the normalised traces are compared across builds. Sampling of the program space, not a proof.",
            note="Programs are constructed so that the model defines every outcome (no moved-out receiver use, no call that would block, kernel-buffer budget respected, <=8 attachments per message, one connect per server, acyclic channel families). The model itself is trusted; select batches are flattened per member.",
            rule="cases = generated programs (vector of operations with index selectors, shrinkable); non-trivial = the executed program used >=3 channels, transferred at least one endpoint inside a message and observed at least one disconnection; distinct = distinct (build, params, canonical JSON of the program)",
            assumptions=COMMON_ASSUMPTIONS + ["the reference model of section 3.3 of DESIGN.md is the specification of 'ideal unbounded FIFO channel'", "release of in-flight descriptors is synchronous with the close that destroys the carrying queue (measured in the spike, relied on for exact predictions)"],
        ),
    ),
    "C03": dict(
        jobs=world_jobs(["os", "inproc"], 4000, 80000),
        meta=M("exploration",
               "model-based stateful property testing (generated handle histories in lock-step with a reference-count world model) plus generated drop/receive races judged by logical-clock stamps",
               "Generated histories of clone / move-to-thread / move-to-forked-process / embed / extract / drop-handle / drop-carrying-receiver over acyclic families of <=6 channels are executed against the real crate and a reference model; every recv/try_recv/try_recv_timeout result must be the model's (message, Empty, Disconnected). Race cases drop the last handles from several threads (and from a carrier message) while a receiver blocks, polls or waits with a timeout; Disconnected is judged against happens-before stamps and the receiver must finish once the last drop returned. Sampling, not proof.",
               "The model and the stamp-based happens-before reasoning are trusted; OS scheduling inside the kernel is not controlled (races are repeated sampling with generated jitter).",
               "cases = generated operation histories (<=40 quick / <=120 thorough operations) and race plans (1..5 sender threads with 0..3 messages each, optional carrier, three receive modes); non-trivial = history in which the held sender count of a channel reached zero while a handle was in transit, or a carrying queue was dropped with handles inside, or any race case; distinct = distinct (build, params, canonical JSON)",
               [MODEL_ASSUMPTION]),
    ),
    "C04": dict(
        jobs=world_jobs(["os", "memfd", "inproc"], 2400, 48000),
        meta=M("exploration",
               "model-based property testing: generated value trees with endpoint/region leaves bound to live channels, round-trip + identity probes; generated multi-hop receiver transfer chains (threads and forked processes)",
               "Value trees with up to 63 endpoints of all kinds and regions at arbitrary positions (small and multi-packet) are sent through the real crate in lock-step with the world model: position is compared by canonical rendering, identity by sending a nonce through every sender and checking which receiver yields it, regions by content. Chains pass a receiver with 0..20 pending messages through 1..5 intermediaries (same thread / other thread / forked process) with traffic before, between and after hops, including through a sender that travelled along; the union of what intermediaries and the final holder receive must be exactly the sent sequence in order.",
               "Probes and the world model are trusted; moved-out receiver handles cannot be used in safe Rust (the value owns them), so 'the handle it was sent from receives nothing further' is enforced by the type system and not probed.",
               "cases = generated programs whose sends carry value trees with endpoint/region leaves (<=63 attachments per message), and transfer chains; non-trivial = a message with >=2 different endpoint kinds and >=1 region, or a chain of >=2 hops with non-empty backlog; distinct = distinct (build, params, canonical JSON)",
               [MODEL_ASSUMPTION]),
    ),
    "C09": dict(
        jobs=world_jobs(["os", "inproc"], 2400, 48000),
        meta=M("exploration",
               "model-based stateful property testing inside sacrificial child processes with SIGPIPE at its default disposition, plus generated send/drop races judged by logical-clock stamps",
               "Generated histories dominated by receiver drops, carrier drops and sends of all sizes with and without attachments are run against the world model in a forked child whose SIGPIPE disposition is the default: send must be Ok exactly when the receiving end still exists somewhere (held, in a set/server, or in transit inside an undelivered message), messages accepted while the receiver was in transit must be delivered in order after unpacking, and the child must end normally. Race cases drop the receiver from another thread or another process during a stream of sends - or the receiving process reads the stream and is SIGKILLed at the generated point, possibly in the middle of reassembling a 6 MB message; sends started after the drop/kill returned must fail, sends that returned before it began must succeed, none may hang, and the sending process (SIGPIPE at its default disposition) must not be killed.",
               "World model and stamps trusted; the kernel-buffer budget of the generator guarantees that a legitimate send never blocks.",
               "cases = generated histories and race plans (1..8 sends, small/multi-packet/larger than the kernel buffers, with/without attachments, dropper = thread, forked process, or a reading process that is killed; typed or bytes channel); non-trivial = a multi-packet or attachment-carrying send after the receiver vanished, or a send to a receiver in transit; distinct = distinct (build, params, canonical JSON)",
               [MODEL_ASSUMPTION]),
    ),
    "C14": dict(
        jobs=lambda tier: [dict(build=b, params={"cases": "6000" if tier == "quick" else "120000"}, shards=2 if tier == "quick" else 8) for b in ("os", "inproc")],
        meta=M("exploration",
               "property-based testing with scripted Serialize/Deserialize implementations (generated failure points and nested sends) against a reference model of per-message attachments",
               "A harness Serialize implementation driven by a generated script visits endpoints/regions, performs nested sends (depth <=3, attachments before/inside/after), fails at generated points or ignores nested failures; a Deserialize hook receives on another channel in the middle of decoding. Every message whose send returned Ok must arrive with exactly its own attachments in the right positions (identity probed); endpoints referenced only by a failed value must disconnect/refuse as soon as the program's handles are gone; plain follow-up traffic on the same thread must carry exactly its own attachments; the descriptor table must return to its baseline. A receive issued inside a deserialisation gets a valid message with attachments of its own, or an undecodable one (no attachments, bytes referring to an attachment number of the enclosing message): the latter must fail without touching the enclosing message.",
               "The scripted value encodes byte-for-byte like Node::List (variant indices verified at start-up); each case runs on a fresh thread because the library's attachment lists are per-thread.",
               "cases = generated scripts (0..7 steps, recursive nesting <=3) x target closed or not x 0..2 follow-up sends x receive-inside-deserialise; non-trivial = a failure after >=1 visited attachment, or nesting with attachments on both levels; distinct = distinct (build, canonical JSON)"),
    ),
    "C13": dict(
        jobs=lambda tier: [dict(build="os", params=dict({"sndbuf": "8192"} if sb else {}, cases="1500" if tier == "quick" else "30000"), shards=8) for sb in (8192, 0)],
        meta=M("fault_enumeration",
               "exhaustive fault enumeration: all 2^10 ENOBUFS patterns over the first 10 transmission attempts x 5 message shapes x 2 attachment modes x 2 send-buffer sizes, injected at the interposed libc boundary; thorough adds generated 64-attempt masks and lengths (proptest)",
               "Every ENOBUFS pattern over the first 10 transmission attempts of one send is injected (the interposed sendmsg/send of the sending thread fails without transmitting) for each listed message shape with and without attachments and for two reported send-buffer sizes: 20 480 sends, swept completely in both tiers. Ok => exact payload + probed attachments + intact follow-on message; Err => no complete-looking message, at most one receiver-side error, follow-on intact; no receive saw MSG_TRUNC; descriptor count unchanged. Every mask x shape also runs at the platform level (OsIpcSender::send(bytes, channels, regions)), where the received lists of channels and regions must equal the sent ones exactly, with a second thread allocating and releasing descriptor numbers throughout the send.",
               "ENOBUFS is simulated at the libc boundary, not provoked in the kernel; the receiver runs concurrently on another thread.",
               "cases = (ENOBUFS mask, shape, attachments) enumerated completely, plus generated masks over 64 attempts with generated lengths in the thorough tier; non-trivial = mask != 0 and the send still succeeded after at least one injected failure, or the send failed after at least one packet had been transmitted; distinct = distinct (params, canonical JSON)",
               exhaustive="all 2^10 masks x {<=2000 B, >2000 B one packet, 2, 3, 6 packets} x {no attachments, sender+region+receiver} x reported SO_SNDBUF in {8192, system default}"),
    ),
    "C02": dict(
        jobs=lambda tier: [dict(build="os", params={"sndbuf": "4096", "cases": "12000" if tier == "quick" else "400000"}, shards=8 if tier == "quick" else 16),
                           dict(build="os", params={"cases": "300" if tier == "quick" else "6000"}, shards=2 if tier == "quick" else 4),
                           dict(build="inproc", params={"sndbuf": "4096", "cases": "2000" if tier == "quick" else "40000"}, shards=2 if tier == "quick" else 4)],
        meta=M("exploration",
               "schedule-controlled property testing: packet-level interleavings of real sends enumerated/sampled through a schedule gate at the interposed sendmsg/send, plus free-running threads and forked processes; history oracle over logical-clock stamps",
               "The order of all packet transmissions of 2..8 concurrent sender threads is a generated multiset permutation enforced at the libc boundary (4 KiB packets, so no real call blocks and the gate owns the order); the configurations 2 senders x 2 messages x 2 packets (70 orders), 2x2x3 (924), 3x1x3 (1680) - and 3x2x2 (34 650) in the thorough tier - are enumerated completely on the real send path, larger ones are sampled. Free-running cases add forked sender processes, jitter and five receiver behaviours (eager, delayed, try_recv polling, try_recv_timeout polling, receiver set); one variant sends messages of up to 1.5 MB through the real kernel buffers while a thread pesters the sender threads with SIGUSR1 (SA_RESTART no-op handler), so that interrupted and partial transmissions occur. Oracle: delivered multiset = sent-Ok multiset, each once; every body whole (length + checksum); return(a) < start(b) implies a delivered before b; receiver finishes after the last sender drop.",
               "Replaces the abstract packet-level model named in the quantifier by enumeration on the real code (see DESIGN.md section 7); the largest listed bound (3x2x3 packets) is sampled, not exhausted. Kernel scheduling inside free-running cases is not controlled.",
               "cases = (per-sender message shapes, packet schedule or jitter, sender processes, receiver mode, typed/bytes); non-trivial = >=2 senders and >=1 multi-packet message whose packets interleave (in the schedule / in overlapping send intervals) with another sender's; distinct = distinct (build, params, canonical JSON)",
               exhaustive="every packet-transmission order of 2x2x2, 2x2x3 and 3x1x3 (senders x messages x packets) in both tiers, additionally 3x2x2 and further receiver modes in the thorough tier"),
    ),
    "C12": dict(
        jobs=lambda tier: [dict(build="os", params={"sndbuf": "4096", "cases": "3000" if tier == "quick" else "120000"}, shards=8 if tier == "quick" else 16)],
        meta=M("fault_enumeration",
               "crash-point enumeration: a forked sender process is SIGKILLed immediately before its k-th intercepted system call (socketpair/sendmsg/send/close) of the fatal send, for every k, per message shape, survivor and observer",
               "For each message shape (1..3 packets quick, 1..6 thorough; with and without attachments), with and without a surviving sender handle in the parent, and for each observer (blocking recv, try_recv loop, receiver set, router route; also observers already waiting while the sender dies), the crash index k runs over every system-call boundary of the sending process from 0 to past the last call. The M messages sent before must arrive intact and first; the interrupted message is delivered intact or not as a message (at most one non-Disconnected error); with a survivor no closure is reported before the survivor's messages arrived; closure is reported afterwards; nothing hangs; attachments of an undelivered message are released. In the first-look variants the observer looks at the channel between the crash and the survivor's next send: try_recv / try_recv_timeout(3 ms) must come back, and a receiver set / the router must deliver a message of another member, while nothing complete is queued behind the abandoned message.",
               "The crash is a real SIGKILL of a real process at a libc-call boundary (not inside the kernel); 4 KiB packets via the SO_SNDBUF lie so that the send never blocks.",
               "cases = (packets, attachments, earlier messages, survivor, observer, concurrent, first look, crash index k) enumerated, plus generated combinations (half of them with k strictly inside the transfer); non-trivial = the process died strictly between the first packet and the last follow-up of a multi-packet message; distinct = distinct canonical JSON",
               exhaustive="every crash index k = 0..packets+8 (covers every intercepted call of the send and 'after the last call') for the listed shapes x survivor x observer"),
    ),
    "C15": dict(
        jobs=lambda tier: [dict(build=b, params=dict({"sndbuf": "4096"} if sb else {}, cases="300" if tier == "quick" else "20000"), shards=4 if tier == "quick" else 8)
                           for b, sb in (("os", 4096), ("os", 0), ("memfd", 4096), ("inproc", 4096))],
        meta=M("exploration",
               "enumerated attachment counts 0..300 x data-part shapes x mixtures (plus generated mixtures, proptest) with accept/refuse oracle and identity probes",
               "Every attachment count 0..300 is tried with five data-part shapes (empty, small, exactly one packet, one byte over, multi-packet), an all-sender and a mixed sender/receiver/region attachment list, through ipc:: values and through platform::OsIpcSender::send vectors. If send refuses, a follow-up plain message must arrive intact and nothing else; if send accepts, the value must arrive with all attachments, each probed for identity and position, followed by the follow-up; the receiver must never panic, abort or hang; the descriptor count returns to its baseline.",
               "The limit itself (64 descriptors) is not assumed by the oracle: accept-or-refuse is observed, then the corresponding obligations are checked.",
               "cases = (count, mixture, data shape, API level); counts 0..300 enumerated for two mixtures x five data shapes + platform API, further mixtures generated; non-trivial = count within +/-3 of 63/64 or of the kernel limit 253, or > 64; distinct = distinct (build, params, canonical JSON)",
               exhaustive="attachment counts 0..300 x 5 data shapes x 2 mixtures (ipc API) and x 1 shape cycle (platform API), per build/configuration"),
    ),
    "C16": dict(
        fuzz_target="decode",
        jobs=lambda tier: [dict(build=b, params={"cases": "40000" if tier == "quick" else "1000000"}, shards=8 if tier == "quick" else 16) for b in ("os", "memfd")]
        + ([dict(fuzz="decode", runs=1500000, max_len=600, procs=8)] if tier == "thorough" else []),
        meta=M("exploration",
               "structure-aware fuzzing with proptest: random bytes and mutated valid encodings (bit flips, truncation, extension, special-value overwrites of length prefixes and attachment indices) x attachment lists x 13 expected types x 5 receive paths, with identity probes and release checks",
               "Arbitrary (bytes, attachments) pairs are put on the wire through the public API (a harness type that serialises as raw bytes and registers attachments) and received as one of 13 expected types via recv, try_recv, receiver set + OpaqueIpcMessage::to, or dropped undecoded via a receiver set or a router callback. The result must be Ok or Err - never a panic/abort; every endpoint/region in an Ok value must be one of the attached ones and handed out at most once (probed); after dropping everything each attached-only sender's channel reports Disconnected, each attached receiver's channel refuses sends, and the descriptor table is back to its baseline. A fifth of the cases free descriptor number 0 right before the receive (a process without stdin), so that the first attachment is installed as descriptor 0; number 0 must be free again afterwards.",
               "In-process generated search (no coverage guidance in the registered tiers); each case runs on a fresh thread; an abort of the worker process is reported as a violation with the case in flight as replay.",
               "cases = (expected type, byte generator, 0..8 attachments, receive path); non-trivial = the decoded value handed out at least one endpoint, or the bytes are a structured mutation of a valid encoding, or the message was dropped undecoded with >=1 attachment; distinct = distinct (build, canonical JSON)"),
    ),
    "C05": dict(
        jobs=lambda tier: [dict(build=b, params={"cases": "3000" if tier == "quick" else "40000"}, shards=4 if tier == "quick" else 8) for b in ("os", "memfd", "inproc")]
        + [dict(build=b, params={"sndbuf": "4096", "cases": "1500" if tier == "quick" else "20000"}, shards=2 if tier == "quick" else 8) for b in ("os", "memfd")]
        + ([dict(build=b, params={"cases": "60", "big": "1", "max_exp": "25"}, shards=2) for b in ("os", "memfd")] if tier == "thorough" else []),
        meta=M("exploration",
               "property-based round-trip testing of shared-memory regions (enumerated boundary lengths + generated lengths/contents/clone patterns), receivers in the same and in a forked process",
               "Regions are created from seeded byte strings or from a fill byte for lengths enumerated around 0, 1, page +/-1, 2 pages +/-1 and generated up to the tier maximum, cloned 0..3 times (a clone or the original is what gets sent), 1..8 per message in generated order mixed with data, received in the same process or in a forked child that never held the sender's handles; contents and lengths are compared at creation, in every clone, after receipt, after the sender's copies and the carrying channel were dropped, and after a second hop; order is preserved. Further variants: two regions with equal contents and the very same region referenced twice in one message; the first look at received regions taken by 2..6 threads at once; new regions of the same lengths created right after the originals were dropped (a recycled backing object would be overwritten); carrying messages of several packets; lengths beyond 2 MiB that are not multiples of it.",
               "Comparison is byte-for-byte (checksums only in reports). The forked receiver reports over a pipe.",
               "cases = (1..8 regions each with length, contents, clone count, which copy is sent; padding; receiver process; second hop); non-trivial = some length is not a multiple of the page size, or >=2 regions, or a clone was sent; distinct = distinct (build, canonical JSON)",
               exhaustive="lengths {0,1,2,page-1,page,page+1,2page-1,2page,2page+1,3page+7} x {stream, fill 0, fill 0xA5} x {same process, forked receiver}"),
    ),
    "C18": dict(
        jobs=lambda tier: [dict(build="asan", params=dict({"sndbuf": str(sb)} if sb else {}, cases="1200" if tier == "quick" else "30000"), shards=6 if tier == "quick" else 8, timeout=900 if tier == "quick" else 7200)
                           for sb in ((4096, 4100, 0) if tier == "quick" else (4096, 4097, 4100, 8192, 65536, 0))],
        meta=M("exploration",
               "property-based testing under AddressSanitizer with a poisoning allocator: the generated/enumerated message shapes of C01, C04, C05, C13 and C15 plus truncated transfers and platform-level zero/odd-length regions, executed in an ASan build of harness + crate",
               "The harness and the crate are compiled with -Zsanitizer=address; ASan's own recv/recvmsg interceptors stay active (the harness's recv/recvmsg wrappers call them instead of the raw system call and only add the masking of the kernel's end-of-file race) and a global allocator wrapper fills every fresh allocation with 0xCD, a byte payloads avoid, so bytes 'received' but never written by the transport show up as content mismatches. Boundary lengths per reported buffer size, 0..63 mixed attachments, region lengths around page boundaries, ENOBUFS-shrunk fragments, counts around the descriptor capacity, senders killed mid-message and platform-level zero-length regions are run; any sanitizer report or abort of the worker is reported as a violation with the case in flight as replay file, and all functional oracles of the source properties apply.",
               "MemorySanitizer is not used (false positive in is_socket/fstat on the unchanged tree). The receive-side ledgers (MSG_TRUNC counter, event log of receives) are not kept in this build.",
               "cases = union of the C01/C04/C05/C13/C15 case types + zero/odd-length platform regions + truncated transfers; non-trivial = the source property's rule (length within +/-16 of a boundary, >=32 attachments, odd/zero-length region, retry-shrunk fragment, truncated transfer); distinct = distinct (params, canonical JSON)"),
    ),
    "C06": dict(
        jobs=lambda tier: [dict(build="os", params={"sndbuf": "4096", "cases": "3000" if tier == "quick" else "60000"}, shards=8 if tier == "quick" else 16),
                           dict(build="inproc", params={"sndbuf": "4096", "cases": "1000" if tier == "quick" else "20000"}, shards=4 if tier == "quick" else 8)],
        meta=M("exploration",
               "stateful property testing of receiver sets: deterministic generated interleavings of send/add/drop/select and free-running sender threads, EINTR injected at the interposed epoll_wait, history invariant as oracle",
               "Sets of 1..24 (quick) / 1..64 (thorough) members with per-member scripts of small and multi-packet messages, members added before, between and after their traffic, senders dropped early or at the end. Regime D interleaves all actions on one thread in a generated order and calls select only while the model says an event of an added member is pending (so a call that does not return is a lost event; more ready members than the event buffer, traffic queued before add, and closure together with data are constructed on purpose). Regime F runs 1..8 sender threads against the selecting thread. EINTR is injected into generated epoll_wait calls. The concatenated select results must give every member its messages once, in order, under the id add returned, and exactly one ChannelClosed after the last message and after the sender drop began; ids of live members are distinct. Members join through add or through add_opaque (all typed, all opaque or alternating per case).",
               "Kernel scheduling inside epoll/mio is not controlled in regime F (repeated sampling with jitter); blocked = asleep in one syscall at two samples, or spinning without returning (CPU time accrues).",
               "cases = (member scripts, add points, drop points, thread assignment, regime, shuffle, select cadence, EINTR mask); non-trivial = more than 10 members ready at one select, or a multi-packet message beside small ones, or an add after traffic, or >=1 injected EINTR; distinct = distinct (build, canonical JSON)"),
    ),
    "C07": dict(
        jobs=lambda tier: [dict(build="os", params={"sndbuf": "4096", "cases": "2400" if tier == "quick" else "48000"}, shards=8 if tier == "quick" else 16),
                           dict(build="inproc", params={"sndbuf": "4096", "cases": "800" if tier == "quick" else "16000"}, shards=4 if tier == "quick" else 8)],
        meta=M("exploration",
               "generated concurrent route registrations and traffic against real router threads, per-route handler logs with drop guards as history oracle",
               "1..32 routes (callback, forwarding to an existing crossbeam sender, to a new crossbeam receiver) are registered from 1..8 threads on a per-worker RouterProxy or on the global ROUTER; each route has 0..50 small/multi-packet messages of which a generated prefix is queued before registration and the rest is sent while other registrations and traffic are in flight; senders are dropped at the end. Each route's handler log must be exactly its own messages 0..n-1 in order, whole; the callback's drop guard must fire exactly once, after the last message and after the sender drop began; crossbeam routes must yield the same sequence and then disconnect; everything is awaited under the hang rule.",
               "Scheduling between the router thread and the registering threads is not controlled (repeated sampling with generated jitter); C07 never stops a router (C17 does).",
               "cases = (routes with kind, message script, prefix length, registering thread, jitter; global or own proxy); non-trivial = >=2 routes registered from different threads with messages queued before registration; distinct = distinct (build, canonical JSON)"),
    ),
    "C17": dict(
        jobs=lambda tier: [dict(build=b, params={"cases": "1600" if tier == "quick" else "24000"}, shards=8 if tier == "quick" else 16) for b in ("os", "inproc")],
        meta=M("exploration",
               "generated router stop scenarios (shutdown from several threads racing with add_route, or proxy drop, with traffic in flight) judged by logical-clock stamps of callback entries, drop guards and call returns; process-wide panic hook",
               "Each case creates a fresh RouterProxy with 0..16 live routes (callback and both crossbeam kinds, plus a sentinel callback route) and optional traffic in flight, then stops it by shutdown() from 1..4 threads concurrently with add_route from 0..4 others, or by dropping the proxy; afterwards it sends on the old routes, offers a route again, calls shutdown again and uses an independent second router. No callback entry may be stamped after shutdown returned; at that moment every registered callback's drop guard must have fired; crossbeam consumers must observe disconnection; routes offered after shutdown must be dropped inside add_route without ever being invoked; after a proxy drop all guards must fire (hang rule); no thread may panic; every call must return. After the stop the receivers of the old routes must be released (sends on them start to fail); in some cases one callback invocation takes 0.6-0.9 s so that the router is stopped while busy inside a callback; a router that never had a route is shut down and then offered routes.",
               "Races between shutdown and add_route are sampled, not enumerated (the proxy mutex serialises them, which is what the stamps rely on).",
               "cases = (routes, stop mode and number of shutdown threads, number of concurrent add_route threads, follow-up activity, jitter); non-trivial = >=1 route alive with traffic in flight at the stop, or >=2 threads racing; distinct = distinct (build, canonical JSON)"),
    ),
    "C20": dict(
        jobs=lambda tier: [dict(build="async", params={"sndbuf": "4096", "cases": "2400" if tier == "quick" else "48000"}, shards=12 if tier == "quick" else 16),
                           dict(build="async-inproc", params={"sndbuf": "4096", "cases": "800" if tier == "quick" else "16000"}, shards=4 if tier == "quick" else 8)],
        meta=M("exploration",
               "generated concurrent to_stream conversions and traffic against the real async routing thread, consumed by a manual poll loop with a counting waker, block_on(collect) and a LocalPool; per-stream item logs as history oracle",
               "1..32 streams are created from 1..8 threads with 0..50 small/multi-packet messages per channel, a generated prefix queued before to_stream() and the rest sent afterwards with jitter, senders dropped at the end; 30% of the cases convert all receivers while idle in one burst and then require a single message per creator thread to be yielded before any other traffic exists. Consumers are a manual poll loop with a counting waker (a Pending must be followed by a wake-up once all senders finished), futures::executor::block_on(stream.collect()) on separate threads, and one LocalPool driving several streams. Each stream must yield exactly its own messages once, in order and whole, and end-of-stream only after its sender's drop began and after all items; all consumers must finish (hang rule). A second job runs the same cases on the in-process transport (async + force-inprocess).",
               "Scheduling of the routing thread is not controlled (repeated sampling with jitter and bursts).",
               "cases = (stream plans with message script, prefix length, creating thread, consumer kind, jitter; idle-burst probe); non-trivial = >=2 streams created from different threads with both pre-queued and later messages, or an idle-burst probe over >=2 threads; distinct = distinct canonical JSON"),
    ),
    "C08": dict(
        jobs=lambda tier: [dict(build="os", params={"sndbuf": "4096", "cases": "1200" if tier == "quick" else "20000"}, shards=8 if tier == "quick" else 16),
                           dict(build="os", params={"cases": "200" if tier == "quick" else "3000"}, shards=2 if tier == "quick" else 4),
                           dict(build="inproc", params={"sndbuf": "4096", "cases": "600" if tier == "quick" else "10000"}, shards=4 if tier == "quick" else 8)],
        meta=M("exploration",
               "generated one-shot-server scenarios (event orders x client kinds: thread, forked child, re-executed helper process) with descriptor/temp-file snapshots as leak oracle",
               "Per case 1..24 (quick) / 1..200 (thorough) servers are alive at once; for each a client (thread, forked child or spawned helper process) connects and sends 1..20 small/multi-packet messages, some with region attachments, in one of the orders: client finishes and exits before accept; accept already waiting; prefix - accept - rest; client running ahead with accept arriving late. In the orders where the server reads while the client sends, messages larger than the kernel buffers (also as the very first, bootstrap message) occur. Some servers are dropped unused, with or without a connected client. accept must return the first message and a receiver yielding the rest in order and then Disconnected; names must be distinct; after accept/drop /proc/self/fd and the private TMPDIR must equal the snapshot taken before the servers were created plus exactly one descriptor per held receiver, and equal it exactly after everything was dropped.",
               "The in-process build checks only the behavioural half (no files or descriptors exist there).",
               "cases = (per server: client kind, message script with attachments, event order, dropped unused, connects); non-trivial = >=2 messages queued before accept, or the client exited before accept, or >=2 servers alive; distinct = distinct (build, params, canonical JSON)"),
    ),
    "C10": dict(
        jobs=lambda tier: [dict(build="os", params={"sndbuf": "4096", "cases": "2400" if tier == "quick" else "40000"}, shards=16),
                           dict(build="os", params={"cases": "300" if tier == "quick" else "4000"}, shards=4),
                           dict(build="inproc", params={"sndbuf": "4096", "cases": "800" if tier == "quick" else "12000"}, shards=8)],
        meta=M("exploration",
               "generated scripts of recv / try_recv / try_recv_timeout(d) against a commanded sender thread (send or drop before / during / after each call), judged causally from logical-clock stamps plus the monotonic clock in the two sound directions",
               "Scripts of up to 30 steps mix the three receive variants with d in {0, 1 ns, 999 us, 1 ms, 1.5 ms, 5-50 ms, 100-300 ms, 1-2 s (thorough)} while a sender thread sends small or multi-packet messages or drops its handle before the call, a generated delay after the call started, or not at all. try_recv must return the next message if its send had returned before the call, Empty if nothing was sent and a sender lives, Disconnected if the drop had returned and nothing is queued (racing cases accept any answer consistent with some instant of the call). try_recv_timeout reporting Empty must have lasted at least floor(d) ms and nothing may have completed before start + floor(d) ms; a blocking recv issued after any Empty must block and return its message. Everything outstanding is delivered in order at the end, then Disconnected. The receiver under test is a plain one, the one returned by a one-shot server's accept, or one that was polled and then transferred through another channel; per origin one blocking recv is issued on the idle channel 10.7 s (quick) / 31 s (thorough) before its only message is sent and must wait for it; timed receives include Duration::MAX (issued only when the script makes them return).",
               "No check asserts that anything is fast; the clock is only used for 'lasted at least' and 'completed before the deadline'. A blocking recv is issued only when the script guarantees a message or a drop.",
               "cases = (steps of (operation, sender action), typed or bytes channel); non-trivial = a blocking recv after an Empty, or a send/drop during a timed wait of >=5 ms, or a sub-millisecond timeout; distinct = distinct (build, params, canonical JSON)"),
    ),
    "C11": dict(
        jobs=lambda tier: [dict(build=b, params={"sndbuf": "4096", "cases": "2500" if tier == "quick" else "40000"}, shards=8 if tier == "quick" else 16) for b in ("os", "memfd")],
        meta=M("exploration",
               "stateful property testing over the whole public API (world-model programs interleaved with failure paths, undecoded drops, router routes and start/stop cycles, repeated for amplification) with descriptor/mapping/temp-file snapshots, a close ledger with planted sentinel descriptors, and spawned children reporting inherited descriptors",
               "Generated sequences (<=60 operations quick, <=400 thorough, repeated up to ~10^3 times within an operation budget) create channels, bytes channels, regions, sets, servers and routers, clone, send small and multi-packet messages with mixed attachments, receive (decoding or dropping undecoded), transfer endpoints, connect to missing and stale names, send values whose serialisation fails, send to closed receivers, and drop everything in generated order. At generated moments every free descriptor number is filled with a sentinel (raw-syscall dup of /dev/null) so that a stale or double close is recorded by the interposed close, and an unrelated child (exec of the harness with 'helper fdlist') reports what it inherited. Afterwards /proc/self/fd, the shared-memory lines of /proc/self/maps and the TMPDIR listing must equal the snapshot taken before the sequence; no close may have failed with EBADF or hit a sentinel; the child must have seen only 0/1/2. A quarter of the cases free descriptor number 0 before every receive (so that received endpoints own number 0) and require it to be free again at the end; private routers are stopped by shutdown() or by dropping the proxy with live routes, and their thread must be gone before the comparison.",
               "memfd_create is a raw syscall invisible to the wrappers - the snapshot oracle still sees its descriptors. The world-model results are checked too (a mismatch is reported under its own signature).",
               "cases = (operation sequence, repetition count); non-trivial = the sequence has >=20 operations and contains a failing operation, an endpoint transfer, a router or a receiver set; distinct = distinct (build, canonical JSON)"),
    ),
}


# The quick tier is fixed work: the case counts above times QUICK_SCALE (the per-property numbers
# were tuned at scale 1 when each quick tier ran for a few seconds on 16 cores; at 4 the whole
# quick suite takes about five minutes including the builds).
import os  # noqa: E402

QUICK_SCALE = int(os.environ.get("IPCV_QUICK_SCALE", "4"))


# The thorough tier was first sized so that every property finished within minutes; the measured
# wall-clock times on 16 cores (C01 17 s ... C11 1247 s) are evened out to roughly 6-10 minutes per
# property by these factors on the generated case counts (enumerated domains are unaffected).
THOROUGH_SCALE = {"C01": 25, "C02": 2, "C03": 5, "C04": 7, "C05": 8, "C06": 1, "C07": 6, "C08": 2, "C09": 6, "C10": 4, "C11": 1,
                  "C12": 8, "C13": 12, "C14": 12, "C15": 30, "C16": 1, "C17": 8, "C18": 2, "C19": 1, "C20": 5}


def _scaled(pid, fn):
    def jobs(tier):
        js = fn(tier)
        k = QUICK_SCALE if tier == "quick" else THOROUGH_SCALE.get(pid, 1)
        if k != 1:
            for j in js:
                p = j.get("params", {})
                if "fuzz" not in j and p.get("cases", "0").isdigit() and int(p["cases"]) > 0:
                    j["params"] = dict(p, cases=str(int(p["cases"]) * k))
        return js
    return jobs


for _k, _v in PROPS.items():
    _v["jobs"] = _scaled(_k, _v["jobs"])
