#!/bin/bash
# Run every registered check once (tier from $1, default quick); summary at the end.
cd "$(dirname "$(readlink -f "$0")")"
# usage: run_all.sh [tier] [property ...]
tier=${1:-quick}
shift
props=${@:-C01 C02 C03 C04 C05 C06 C07 C08 C09 C10 C11 C12 C13 C14 C15 C16 C17 C18 C19 C20}
fail=0
for p in $props; do
  s=$(date +%s)
  out=$(./check.py $p --tier $tier 2>&1); rc=$?
  e=$(( $(date +%s) - s ))
  echo "$p rc=$rc ${e}s :: $(echo "$out" | grep -E "^$p |VIOLATION|INCONCLUSIVE|KNOWN" | head -3 | tr '\n' ' ')"
  [ $rc -ne 0 ] && fail=1
done
exit $fail
